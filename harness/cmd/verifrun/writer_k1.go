package main

import (
	"fmt"
	"math/rand"
	"strings"

	txfile "github.com/elastic/go-txfile"

	"verifharness/engine"
	"verifharness/model"
)

// writerQueueK1: random interleavings of Schedule / Sync / nextCommand (buffer sizes 1..1024) on the writer's
// scheduling queue (hook VerifWriterQueue, no goroutine) vs. the Coq model Model/WriterQueue.v (theorem
// queue_preserves_schedule); plus the statement of the theorem as an oracle on the implementation: what
// nextCommand hands out, in order, is the schedule (a sync after all writes scheduled before it, before all
// writes scheduled after it).
func writerQueueK1(rep *Report, m *model.Client, r *rand.Rand, n int) {
	for i := 0; i < n; i++ {
		v := txfile.NewVerifWriterQueue()
		var toks, implOut, sched, exec []string
		nops := 5 + r.Intn(60)
		big := r.Intn(4) == 0 // bursts of more writes than the buffer holds
		nextID := 1
		panicked := false
		for k := 0; k < nops && !panicked; k++ {
			switch x := r.Intn(10); {
			case x < 5:
				burst := 1
				if big {
					burst = 1 + r.Intn(12)
				}
				for b := 0; b < burst; b++ {
					v.Schedule(uint64(nextID))
					toks = append(toks, fmt.Sprintf("w%d", nextID))
					sched = append(sched, fmt.Sprintf("w%d", nextID))
					nextID++
				}
			case x < 7:
				v.Sync()
				toks = append(toks, "s")
				sched = append(sched, "s")
			default:
				b := []int{1, 2, 3, 5, 8, 1024}[r.Intn(6)]
				ids, fs, ok, pan := v.Next(b)
				toks = append(toks, fmt.Sprintf("n%d", b))
				if pan {
					panicked = true
					break
				}
				if !ok {
					implOut = append(implOut, "none")
					continue
				}
				var s []string
				for _, id := range ids {
					s = append(s, fmt.Sprint(id))
					exec = append(exec, fmt.Sprintf("w%d", id))
				}
				if fs {
					exec = append(exec, "s")
				}
				implOut = append(implOut, strings.Join(s, ",")+":"+b01(fs))
			}
		}
		// drain
		for !panicked {
			ids, fs, ok, pan := v.Next(1024)
			toks = append(toks, "n1024")
			if pan {
				panicked = true
				break
			}
			if !ok {
				implOut = append(implOut, "none")
				break
			}
			var s []string
			for _, id := range ids {
				s = append(s, fmt.Sprint(id))
				exec = append(exec, fmt.Sprintf("w%d", id))
			}
			if fs {
				exec = append(exec, "s")
			}
			implOut = append(implOut, strings.Join(s, ",")+":"+b01(fs))
		}
		if panicked {
			rep.Evaluations++
			rep.violate(Violation{Kind: "oracle", Sig: "writer-queue/nextCommand-panics",
				Detail: fmt.Sprintf("nextCommand panics on the queue built by the script %q", trunc(strings.Join(toks, " "), 300)),
				Replay: map[string]interface{}{"script": strings.Join(toks, " ")}})
			continue
		}
		a, b, c, d := v.State()
		impl := strings.Join(implOut, " ") + " ; " + fmt.Sprintf("%d %d %d %d", a, b, c, d)
		mod := m.Ask("wqscript " + strings.Join(toks, " "))
		rep.Evaluations++
		rep.count("writer-queue:scripts", 1)
		if big {
			rep.count("writer-queue:bursts-bigger-than-the-buffer", 1)
		}
		rep.nontrivial(fmt.Sprintf("wq/%d/%d", len(toks), i))
		replay := map[string]interface{}{"script": strings.Join(toks, " "), "impl": impl, "model": mod}
		if strings.Join(exec, " ") != strings.Join(sched, " ") {
			rep.violate(Violation{Kind: "oracle", Sig: "writer-queue/executed-is-not-the-schedule",
				Detail: fmt.Sprintf("the commands of nextCommand, in order, are not the schedule: scheduled %q, handed out %q", strings.Join(sched, " "), strings.Join(exec, " ")),
				Replay: replay})
			continue
		}
		if impl != mod {
			rep.violate(Violation{Kind: "correspondence", Sig: "writer-queue/script",
				Detail: fmt.Sprintf("writer queue script %q: implementation %q, model %q", trunc(strings.Join(toks, " "), 200), trunc(impl, 200), trunc(mod, 200)),
				Replay: replay})
		}
	}
}

// truncateK1: checkTruncate (how far a commit may cut a bounded file) vs. Model/Truncate.v on random and boundary
// arguments, with the theorem's statement as an oracle: a truncation never cuts below what the previous commit
// (the fall-back header) or the new commit needs.
func truncateK1(rep *Report, m *model.Client, r *rand.Rand, n int) {
	for i := 0; i < n; i++ {
		ps := []uint{1024, 4096}[r.Intn(2)]
		pages := func() int64 { return int64(r.Intn(200)) }
		lastData, lastMeta := uint64(pages()), uint64(pages())
		maxSz := []int64{0, 0, pages() * int64(ps), 50 * int64(ps), 64 * int64(ps)}[r.Intn(5)]
		mmapSz := pages() * int64(ps)
		sz := pages() * int64(ps)
		if r.Intn(3) == 0 {
			sz = mmapSz + int64(r.Intn(3)-1)*int64(ps)
		}
		e, tr := txfile.VerifCheckTruncate(lastData, lastMeta, sz, mmapSz, maxSz, ps)
		lastEnd := lastData
		if lastMeta > lastEnd {
			lastEnd = lastMeta
		}
		impl := fmt.Sprintf("%d %s", e, b01(tr))
		mod := m.Ask(fmt.Sprintf("checktruncate %d %d %d %d %d", lastEnd, sz, mmapSz, maxSz, ps))
		rep.Evaluations++
		rep.count("truncate-k1:"+b01(tr), 1)
		replay := map[string]interface{}{"last_data_end": lastData, "last_meta_end": lastMeta, "size": sz, "new_commit_needs": mmapSz, "max_size": maxSz, "page_size": ps}
		if tr && (e < int64(lastEnd)*int64(ps) || e < mmapSz) {
			rep.violate(Violation{Kind: "oracle", Sig: "check-truncate/cuts-below-a-commit",
				Detail: fmt.Sprintf("checkTruncate cuts the file to %d bytes; the previous commit (the fall-back header) needs %d, the new one %d (size %d, limit %d)", e, int64(lastEnd)*int64(ps), mmapSz, sz, maxSz),
				Replay: replay})
		} else if impl != mod && (tr || !strings.HasSuffix(mod, " 0")) {
			rep.violate(Violation{Kind: "correspondence", Sig: "check-truncate", Detail: fmt.Sprintf("checkTruncate: implementation %q, model %q (%v)", impl, mod, replay), Replay: replay})
		}
	}
}

// k1Model: the model client of the running campaign, for correspondence checks inside helpers that have no client
// of their own (nil: the check is skipped)
var k1Model *model.Client

// rollbackTruncK1 compares what every Rollback / Close of a write transaction of an engine did to the file size
// with the Coq model rollback_truncate (theorems rollback_truncate_spec, rollback_keeps_committed_extent) on the
// end markers of the restored allocator state. Truncations whose size query / truncate call was made to fail
// are left out.
func rollbackTruncK1(e *engine.Engine) (fails []string, n int) {
	if k1Model == nil || e == nil {
		return nil, 0
	}
	for _, rt := range e.RollbackTruncs {
		if rt.Failed {
			continue
		}
		n++
		mod := k1Model.Ask(fmt.Sprintf("rollbacktruncate %d %d %d %d %d %d", rt.MetaEnd, rt.DataEnd, rt.OtherEnd, rt.SzBefore, rt.PageSize, rt.MaxPages))
		impl := "none"
		if rt.NewSize >= 0 {
			impl = fmt.Sprint(rt.NewSize)
		}
		if impl != mod {
			fails = append(fails, fmt.Sprintf("rollback-truncate-k1: a rollback on a file of %d bytes (restored end markers: meta %d, data %d; other header ends at %d; %d pages of %d bytes max) truncated it to %s, model: %s",
				rt.SzBefore, rt.MetaEnd, rt.DataEnd, rt.OtherEnd, rt.MaxPages, rt.PageSize, impl, mod))
		}
	}
	return fails, n
}
