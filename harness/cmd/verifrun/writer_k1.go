package main

import (
	"fmt"
	"math/rand"
	"strings"

	txfile "github.com/elastic/go-txfile"

	"verifharness/model"
)

// writerQueueK1: random interleavings of Schedule / Sync / nextCommand (buffer sizes 1..1024) on the writer's
// scheduling queue (hook VerifWriterQueue, no goroutine) vs. the Coq model Model/WriterQueue.v (theorem
// queue_preserves_schedule); plus the statement of the theorem as an oracle on the implementation: what
// nextCommand hands out, in order, is the schedule (a sync after all writes scheduled before it, before all
// writes scheduled after it).
func writerQueueK1(rep *Report, m *model.Client, r *rand.Rand, n int) {
	for i := 0; i < n; i++ {
		v := txfile.NewVerifWriterQueue()
		var toks, implOut, sched, exec []string
		nops := 5 + r.Intn(60)
		big := r.Intn(4) == 0 // bursts of more writes than the buffer holds
		nextID := 1
		panicked := false
		for k := 0; k < nops && !panicked; k++ {
			switch x := r.Intn(10); {
			case x < 5:
				burst := 1
				if big {
					burst = 1 + r.Intn(12)
				}
				for b := 0; b < burst; b++ {
					v.Schedule(uint64(nextID))
					toks = append(toks, fmt.Sprintf("w%d", nextID))
					sched = append(sched, fmt.Sprintf("w%d", nextID))
					nextID++
				}
			case x < 7:
				v.Sync()
				toks = append(toks, "s")
				sched = append(sched, "s")
			default:
				b := []int{1, 2, 3, 5, 8, 1024}[r.Intn(6)]
				ids, fs, ok, pan := v.Next(b)
				toks = append(toks, fmt.Sprintf("n%d", b))
				if pan {
					panicked = true
					break
				}
				if !ok {
					implOut = append(implOut, "none")
					continue
				}
				var s []string
				for _, id := range ids {
					s = append(s, fmt.Sprint(id))
					exec = append(exec, fmt.Sprintf("w%d", id))
				}
				if fs {
					exec = append(exec, "s")
				}
				implOut = append(implOut, strings.Join(s, ",")+":"+b01(fs))
			}
		}
		// drain
		for !panicked {
			ids, fs, ok, pan := v.Next(1024)
			toks = append(toks, "n1024")
			if pan {
				panicked = true
				break
			}
			if !ok {
				implOut = append(implOut, "none")
				break
			}
			var s []string
			for _, id := range ids {
				s = append(s, fmt.Sprint(id))
				exec = append(exec, fmt.Sprintf("w%d", id))
			}
			if fs {
				exec = append(exec, "s")
			}
			implOut = append(implOut, strings.Join(s, ",")+":"+b01(fs))
		}
		if panicked {
			rep.Evaluations++
			rep.violate(Violation{Kind: "oracle", Sig: "writer-queue/nextCommand-panics",
				Detail: fmt.Sprintf("nextCommand panics on the queue built by the script %q", trunc(strings.Join(toks, " "), 300)),
				Replay: map[string]interface{}{"script": strings.Join(toks, " ")}})
			continue
		}
		a, b, c, d := v.State()
		impl := strings.Join(implOut, " ") + " ; " + fmt.Sprintf("%d %d %d %d", a, b, c, d)
		mod := m.Ask("wqscript " + strings.Join(toks, " "))
		rep.Evaluations++
		rep.count("writer-queue:scripts", 1)
		if big {
			rep.count("writer-queue:bursts-bigger-than-the-buffer", 1)
		}
		rep.nontrivial(fmt.Sprintf("wq/%d/%d", len(toks), i))
		replay := map[string]interface{}{"script": strings.Join(toks, " "), "impl": impl, "model": mod}
		if strings.Join(exec, " ") != strings.Join(sched, " ") {
			rep.violate(Violation{Kind: "oracle", Sig: "writer-queue/executed-is-not-the-schedule",
				Detail: fmt.Sprintf("the commands of nextCommand, in order, are not the schedule: scheduled %q, handed out %q", strings.Join(sched, " "), strings.Join(exec, " ")),
				Replay: replay})
			continue
		}
		if impl != mod {
			rep.violate(Violation{Kind: "correspondence", Sig: "writer-queue/script",
				Detail: fmt.Sprintf("writer queue script %q: implementation %q, model %q", trunc(strings.Join(toks, " "), 200), trunc(impl, 200), trunc(mod, 200)),
				Replay: replay})
		}
	}
}
