package main

import (
	"fmt"
	"math/rand"
	"sort"
	"strings"
	"time"
	"verifharness/gen"

	txfile "github.com/elastic/go-txfile"

	"verifharness/engine"
	"verifharness/model"
	"verifharness/simdisk"
)

// pageK1 compares the page write buffer (page.go, reached through the public Tx/Page API) with the
// Coq model Model/PageBuf.v on random operation scripts on a fresh and on an existing page.
func pageK1(rep *Report, m *model.Client, r *rand.Rand, n int) {
	const ps = 1024
	for i := 0; i < n; i++ {
		d := simdisk.New("pg")
		f, err := txfile.VerifOpen(d, txfile.Options{PageSize: ps, MaxSize: 64 * 1024})
		if err != nil {
			continue
		}
		fresh := r.Intn(2) == 0
		var id txfile.PageID
		disk := engine.Pattern(uint64(i), 77, ps)
		if !fresh {
			tx, _ := f.Begin()
			p, _ := tx.Alloc()
			id = p.ID()
			p.SetBytes(append([]byte(nil), disk...))
			tx.Commit()
		}
		tx, _ := f.Begin()
		var p *txfile.Page
		if fresh {
			p, _ = tx.Alloc()
		} else {
			p, _ = tx.Page(id)
		}
		kind := "existing"
		if fresh {
			kind = "fresh"
			disk = nil
		}
		var ops, impl []string
		k := 2 + r.Intn(10)
		for j := 0; j < k; j++ {
			var op, res string
			errs := func(e error) string {
				if e == nil {
					return "ok"
				}
				switch engine.ErrKind(e) {
				case fmt.Sprintf("kind%d", int(txfile.InvalidOp)):
					return "EInvalidOp"
				case fmt.Sprintf("kind%d", int(txfile.InvalidParam)):
					return "EInvalidParam"
				}
				return "E?" + engine.ErrKind(e)
			}
			switch x := r.Intn(100); {
			case x < 22:
				c := engine.Pattern(uint64(j), r.Intn(1000), ps)
				op, res = "setb:"+model.Hex(c), errs(p.SetBytes(c))
			case x < 42:
				l := r.Intn(ps)
				if r.Intn(8) == 0 {
					l = ps + 1 + r.Intn(8) // oversize
				}
				c := engine.Pattern(uint64(j), r.Intn(1000), ps+16)[:l]
				op, res = "setb:"+model.Hex(c), errs(p.SetBytes(c))
			case x < 50:
				op, res = "load", errs(p.Load())
			case x < 55:
				// MarkDirty on a page whatever its state (also one that was never loaded): afterwards it must have a buffer
				op, res = "markdirty", errs(p.MarkDirty())
				if res == "ok" {
					res = fmt.Sprintf("ok:buf=%d", map[bool]int{false: 0, true: 1}[txfile.VerifPageHasBuffer(p)])
				}
			case x < 68:
				// in-place modification needs the writable buffer of Load
				b, err := p.Bytes()
				off := r.Intn(ps)
				l := r.Intn(ps - off + 1)
				c := engine.Pattern(uint64(j), r.Intn(1000), ps)[:l]
				if err != nil || p.Load() != nil {
					continue
				}
				b, _ = p.Bytes()
				copy(b[off:], c)
				ops = append(ops, "load")
				impl = append(impl, "ok")
				op, res = fmt.Sprintf("mod:%d:%s", off, model.Hex(c)), errs(p.MarkDirty())
			case x < 85:
				b, err := p.Bytes()
				op = "bytes"
				if err != nil {
					res = errs(err)
				} else {
					res = model.Hex(b)
				}
			case x < 93:
				op = "flush"
				was := p.Dirty()
				b, _ := p.Bytes()
				err := p.Flush()
				switch {
				case err != nil:
					res = errs(err)
				case was && !strings.Contains(txfile.VerifPageState(p), "flushed=false"):
					res = "w" + model.Hex(b)
				default:
					res = "nop"
				}
			default:
				op, res = "free", errs(p.Free())
			}
			ops = append(ops, op)
			impl = append(impl, res)
		}
		tx.Rollback()
		f.Close()
		mod := m.Ask(fmt.Sprintf("pagescript %d %s %s %s", ps, kind, model.Hex(disk), strings.Join(ops, " ")))
		got := strings.Join(impl, " ")
		rep.Evaluations++
		rep.count("page-scripts:"+kind, 1)
		short := make([]string, len(ops))
		for q, o := range ops {
			short[q] = strings.SplitN(o, ":", 2)[0]
		}
		rep.nontrivial("page/" + kind + "/" + strings.Join(short, ","))
		if i < 1 {
			rep.sample(map[string]interface{}{"page": kind, "ops": short})
		}
		if mod != got {
			step := 0
			ms := strings.Fields(mod)
			for step < len(impl) && step < len(ms) && impl[step] == ms[step] {
				step++
			}
			is, mds := "?", "?"
			if step < len(impl) {
				is = trunc(impl[step], 60)
			}
			if step < len(ms) {
				mds = trunc(ms[step], 60)
			}
			rep.violate(Violation{Kind: "correspondence", Sig: "page-buffer/" + short[min(step, len(short)-1)],
				Detail: fmt.Sprintf("page buffer differs from model at step %d of %v on a %s page: impl=%s model=%s", step, short, kind, is, mds),
				Replay: map[string]interface{}{"kind": kind, "disk": model.Hex(disk), "ops": ops, "impl": impl}})
		}
	}
}

func trunc(s string, n int) string {
	if len(s) > n {
		return s[:n] + "..."
	}
	return s
}

// stallScenario: a transaction flushes its pages and is rolled back; the next transaction gets the
// same pages again and writes other contents; the writer goroutine is slowed down so that the queued
// writes of both transactions are consumed in the same batch (and the batch exceeds 12 entries).
func stallScenario(rep *Report, r *rand.Rand) {
	n := 13 + r.Intn(40)
	cfg := engine.Config{PageSize: 1024, MaxSize: 0}
	ops := []engine.Op{{Kind: "begin"}, {Kind: "alloc", N: n}}
	for i := 0; i < n; i++ {
		ops = append(ops, engine.Op{Kind: "setfull", P: i, Seed: 100 + i})
	}
	ops = append(ops, engine.Op{Kind: "flush"}, engine.Op{Kind: "rollback"}, engine.Op{Kind: "begin"}, engine.Op{Kind: "alloc", N: n})
	for i := 0; i < n; i++ {
		ops = append(ops, engine.Op{Kind: "setfull", P: i, Seed: 5000 + i})
	}
	ops = append(ops, engine.Op{Kind: "commit"}, engine.Op{Kind: "verify"}, engine.Op{Kind: "reopen"}, engine.Op{Kind: "verify"})
	setup := func(e *engine.Engine) {
		e.Disk.Hook = func(kind simdisk.OpKind, idx int) {
			if kind == simdisk.OpWrite && idx%16 == 3 {
				time.Sleep(2 * time.Millisecond)
			}
		}
	}
	e := runOracleHistory(rep, cfg, ops, int64(n), "stall", setup, nil)
	rep.count("stall-scenarios", 1)
	if e != nil {
		rep.nontrivial(fmt.Sprintf("stall/%d", n))
	}
}

// stallScenario2: two writes to one page id in the writer's queue at the same time WITHOUT a rolled-back
// transaction: a manual checkpoint copies the overwrite pages back onto the original page ids, the same
// transaction then overwrites those pages again and commits (their new content goes straight to the original
// ids). The writer goroutine is slowed down so that both writes land in one batch of more than 12 entries.
func stallScenario2(rep *Report, r *rand.Rand) {
	n := 14 + r.Intn(30)
	cfg := engine.Config{PageSize: 1024, MaxSize: 0, InitMetaArea: uint32(r.Intn(2) * 8)}
	ops := []engine.Op{{Kind: "begin"}, {Kind: "alloc", N: n}}
	for i := 0; i < n; i++ {
		ops = append(ops, engine.Op{Kind: "setfull", P: i, Seed: 100 + i})
	}
	ops = append(ops, engine.Op{Kind: "commit"}, engine.Op{Kind: "begin", WALLimit: 1000})
	for i := 0; i < n; i++ {
		ops = append(ops, engine.Op{Kind: "setfull", P: i, Seed: 3000 + i})
	}
	ops = append(ops, engine.Op{Kind: "commit"}, engine.Op{Kind: "begin", WALLimit: 1000}, engine.Op{Kind: "checkpoint"})
	for i := 0; i < n; i++ {
		if r.Intn(4) != 0 {
			ops = append(ops, engine.Op{Kind: "setfull", P: i, Seed: 7000 + i})
		}
	}
	ops = append(ops, engine.Op{Kind: "commit"}, engine.Op{Kind: "verify"}, engine.Op{Kind: "reopen"}, engine.Op{Kind: "verify"})
	setup := func(e *engine.Engine) {
		e.Disk.Hook = func(kind simdisk.OpKind, idx int) {
			if kind == simdisk.OpWrite && idx%16 == 3 {
				time.Sleep(2 * time.Millisecond)
			}
		}
	}
	e := runOracleHistory(rep, cfg, ops, int64(n), "stall2", setup, nil)
	rep.count("stall-scenarios-checkpoint-then-overwrite", 1)
	if e != nil {
		rep.nontrivial(fmt.Sprintf("stall2/%d", n))
	}
}

// walK1: the overwrite mapping after every commit vs. the Coq model of the transaction core (Model/TxCore.v,
// theorem commit_reads): histories of allocations, page writes, page / transaction flushes, manual checkpoints
// and commits with various overwrite-page limits (no frees: Tx.Free is not part of that model).
func walK1(rep *Report, m *model.Client, r *rand.Rand, n int) {
	for i := 0; i < n; i++ {
		hseed := r.Int63()
		hr := rand.New(rand.NewSource(hseed))
		cfg := gen.PickConfig(hr)
		var ops []engine.Op
		for t := 2 + hr.Intn(7); t > 0; t-- {
			ops = append(ops, engine.Op{Kind: "begin", WALLimit: []uint{0, 1, 2, 3, 5, 1000}[hr.Intn(6)]})
			for k := hr.Intn(13); k > 0; k-- {
				switch x := hr.Intn(100); {
				case x < 25:
					ops = append(ops, engine.Op{Kind: "alloc", N: 1 + hr.Intn(4)})
				case x < 60:
					ops = append(ops, engine.Op{Kind: "setfull", P: hr.Intn(1 << 16), Seed: 1 + hr.Intn(1<<20)})
				case x < 70:
					ops = append(ops, engine.Op{Kind: "flushpage", P: hr.Intn(1 << 16)})
				case x < 75:
					ops = append(ops, engine.Op{Kind: "flush"})
				case x < 82:
					ops = append(ops, engine.Op{Kind: "checkpoint"})
				default:
					ops = append(ops, engine.Op{Kind: "read", P: hr.Intn(1 << 16)})
				}
			}
			if hr.Intn(100) < 85 {
				ops = append(ops, engine.Op{Kind: "commit"}, engine.Op{Kind: "verify"})
			} else {
				ops = append(ops, engine.Op{Kind: "rollback"})
			}
		}
		var toks []string
		var oldMap string
		var limit uint
		var mism []string
		setup := func(e *engine.Engine) {
			e.AfterOp = func(e *engine.Engine, op engine.Op, res engine.Result) {
				if res.Skipped || res.Panicked {
					return
				}
				switch op.Kind {
				case "begin":
					if res.Err != "" || e.File == nil {
						return
					}
					toks = nil
					limit = op.WALLimit
					if limit == 0 {
						limit = 1000
					}
					mp := txfile.VerifSnapshot(e.File).WalMapping
					keys := make([]uint64, 0, len(mp))
					for k := range mp {
						keys = append(keys, k)
					}
					sort.Slice(keys, func(a, b int) bool { return keys[a] < keys[b] })
					var parts []string
					for _, k := range keys {
						parts = append(parts, fmt.Sprint(k), fmt.Sprint(mp[k]))
					}
					oldMap = "[" + strings.Join(parts, ",") + "]"
				case "alloc":
					for _, id := range res.IDs {
						toks = append(toks, fmt.Sprintf("a%d", id))
					}
				case "setfull":
					if res.Err == "" {
						toks = append(toks, fmt.Sprintf("s%d", e.LastID))
					}
				case "flushpage":
					if res.Err == "" {
						toks = append(toks, fmt.Sprintf("f%d", e.LastID))
					}
				case "flush":
					if res.Err == "" {
						toks = append(toks, "F")
					}
				case "checkpoint":
					if res.Err == "" {
						toks = append(toks, "c")
					}
				case "commit":
					if res.Err != "" || e.File == nil {
						return
					}
					want := m.Ask(fmt.Sprintf("walscript %d %s %s", limit, oldMap, strings.Join(toks, " ")))
					mp := txfile.VerifSnapshot(e.File).WalMapping
					keys := make([]int, 0, len(mp))
					for k := range mp {
						keys = append(keys, int(k))
					}
					sort.Ints(keys)
					var parts []string
					for _, k := range keys {
						parts = append(parts, fmt.Sprint(k))
					}
					got := "[" + strings.Join(parts, ",") + "]"
					rep.count("k1:wal-mapping-after-commit", 1)
					if len(mp) > 0 {
						rep.count("k1:wal-mapping-nonempty", 1)
					}
					if got != want {
						mism = append(mism, fmt.Sprintf("pages with an overwrite page after the commit: implementation %s, model %s (limit %d, mapping before %s, transaction: %s)", got, want, limit, oldMap, strings.Join(toks, " ")))
					}
				}
			}
		}
		e := runOracleHistory(rep, cfg, ops, hseed, "wal-k1", setup, nil)
		if e != nil {
			rep.nontrivial(fmt.Sprintf("walk1/%s/%v", cfg, e.Stats))
		}
		if len(mism) > 0 {
			rep.violate(Violation{Kind: "correspondence", Sig: "txcore/overwrite-mapping-after-commit",
				Detail: mism[0] + " on " + cfg.String(),
				Replay: histReplay{Config: cfg, Ops: ops, Failures: mism, Seed: hseed, Mode: "wal-k1"}})
		}
	}
}
