package main

import (
	"fmt"
	"math/rand"
	"os"
	"strings"

	txfile "github.com/elastic/go-txfile"
	"github.com/elastic/go-txfile/pq"
	"github.com/elastic/go-txfile/txerr"

	"verifharness/engine"
	"verifharness/gen"
	"verifharness/model"
	"verifharness/simdisk"
)

// C15: misuse matrix. Every (lifecycle state x method) pair of Tx, Page and the queue objects is
// executed on the implementation after a random prefix history; the outcome (error kind / ok / panic)
// is compared with the Coq matrices (Model/Api.v) and the state must be unchanged after an error.

var txKindNames = map[txfile.ErrKind]string{
	txfile.InvalidOp: "InvalidOp", txfile.InvalidPageID: "InvalidPageID", txfile.InvalidParam: "InvalidParam",
	txfile.TxCommitFail: "TxCommitFail", txfile.TxRollbackFail: "TxRollbackFail", txfile.TxFinished: "TxFinished",
	txfile.TxReadOnly: "TxReadOnly", txfile.OutOfMemory: "OutOfMemory",
}

func txKind(err error) string {
	if err == nil {
		return "ok"
	}
	if k := txerr.GetKind(err); k != nil {
		if ek, ok := k.(txfile.ErrKind); ok {
			if n, ok := txKindNames[ek]; ok {
				return n
			}
			return fmt.Sprintf("txkind%d", int(ek))
		}
		if pk, ok := k.(pq.ErrKind); ok {
			return pqKindName(pk)
		}
	}
	return "error-without-kind"
}

func pqKindName(k pq.ErrKind) string {
	switch k {
	case pq.QueueClosed:
		return "QueueClosed"
	case pq.ReaderClosed:
		return "ReaderClosed"
	case pq.WriterClosed:
		return "WriterClosed"
	case pq.ACKEmptyQueue:
		return "ACKEmptyQueue"
	case pq.ACKTooMany:
		return "ACKTooMany"
	case pq.InactiveTx:
		return "InactiveTx"
	case pq.UnexpectedActiveTx:
		return "UnexpectedActiveTx"
	}
	return fmt.Sprintf("pqkind%d", int(k))
}

// guarded runs fn and maps a panic to "panic: ..."
func guarded(fn func() error) (res string) {
	defer func() {
		if r := recover(); r != nil {
			res = fmt.Sprintf("panic: %v", r)
		}
	}()
	return txKind(fn())
}

type c15Replay struct {
	Config engine.Config `json:"config"`
	Prefix []engine.Op   `json:"prefix"`
	Object string        `json:"object"`
	State  string        `json:"state"`
	Method string        `json:"method"`
	Impl   string        `json:"impl"`
	Model  string        `json:"model"`
}

// makeTx brings a transaction into the given lifecycle state.
func makeTx(f *txfile.File, state string, r *rand.Rand) *txfile.Tx {
	var tx *txfile.Tx
	switch state {
	case "rw", "done-rw":
		tx, _ = f.Begin()
	default:
		tx, _ = f.BeginReadonly()
	}
	if strings.HasPrefix(state, "done") {
		switch r.Intn(3) {
		case 0:
			tx.Commit()
		case 1:
			tx.Rollback()
		default:
			tx.Close()
		}
	}
	return tx
}

func c15Matrix(rep *Report, m *model.Client, cfg engine.Config, prefix []engine.Op, r *rand.Rand) {
	e, err := engine.RunHistory(cfg, prefix, nil)
	if err != nil {
		return
	}
	if e.Tx != nil {
		e.Apply(engine.Op{Kind: "commit"})
	}
	e.Apply(engine.Op{Kind: "rcloseall"})
	if len(e.Committed.Pages) == 0 {
		for _, op := range []engine.Op{{Kind: "begin"}, {Kind: "alloc", N: 3}, {Kind: "setfull", P: 0, Seed: 1}, {Kind: "setfull", P: 1, Seed: 2}, {Kind: "commit"}} {
			e.Apply(op)
		}
	}
	defer e.Close()
	if e.File != nil && len(txfile.VerifSnapshot(e.File).WalMapping) == 0 {
		// a live page whose current version lives in an overwrite page (the flush of such a page takes another path)
		for _, op := range []engine.Op{{Kind: "begin", WALLimit: 1000}, {Kind: "setfull", P: 0, Seed: 11}, {Kind: "commit"}} {
			e.Apply(op)
		}
	}
	f := e.File
	ps := f.PageSize()
	var livePage txfile.PageID
	for id := range e.Committed.Pages {
		livePage = txfile.PageID(id)
		break
	}
	pagesToTry := []txfile.PageID{livePage}
	for id := range txfile.VerifSnapshot(f).WalMapping {
		if _, live := e.Committed.Pages[uint64(id)]; live && txfile.PageID(id) != livePage {
			pagesToTry = append(pagesToTry, txfile.PageID(id))
			break
		}
	}
	check := func(object, state, method, impl string) {
		var mod string
		switch object {
		case "tx":
			mm, ms := method, state
			if strings.HasPrefix(mm, "page-oob") {
				mm = "page-oob" // the same abstract method with different out-of-range ids
			}
			if mm == "page-new-freed" {
				mm = "page-freed"
			}
			if ms == "ro-while-writer-allocates" {
				ms = "ro"
			}
			mod = m.Ask("api_tx " + ms + " " + mm)
		case "page":
			parts := strings.SplitN(state, "/", 2)
			mod = m.Ask("api_page " + parts[0] + " " + parts[1] + " " + method)
		}
		rep.Evaluations++
		rep.count(object+":"+state+":"+method+"="+firstWord(impl), 1)
		rep.nontrivial(object + "/" + state + "/" + method)
		// out-of-space is a legitimate answer of a valid allocation
		if mod == "ok" && impl == "OutOfMemory" {
			return
		}
		if impl != mod {
			// the matrix is the documented behaviour: a different answer of the implementation on this
			// (state, method) pair is the failing input itself
			kind := "oracle"
			rep.violate(Violation{Kind: kind, Sig: fmt.Sprintf("misuse/%s/%s/%s/%s", object, state, method, firstWord(impl)),
				Detail: fmt.Sprintf("%s in state %s: %s returns %q, documented/model: %q", object, state, method, impl, mod),
				Replay: c15Replay{Config: cfg, Prefix: prefix, Object: object, State: state, Method: method, Impl: impl, Model: mod}})
		}
	}
	stateBefore := func() stateDigest { return digest(e) }

	// ---- Tx matrix
	// (finished read transactions first: a second finish that unlocked again would be a fatal runtime error for a
	// write transaction, but silently corrupts the reader count for a read transaction - the lock state is compared)
	for _, st := range []string{"rw", "ro", "done-ro", "done-rw"} {
		for _, meth := range []string{"commit", "rollback", "close", "alloc", "allocn", "flush", "checkpoint", "page", "page-oob", "page-oob-end", "page-oob-hdr", "page-freed", "page-new-freed", "rootpage"} {
			if meth == "page-new-freed" && st != "rw" {
				continue
			}
			before := stateBefore()
			tx := makeTx(f, st, r)
			if meth == "page-freed" && st == "rw" {
				if p, err := tx.Page(livePage); err == nil {
					p.Free()
				}
			}
			newFreed := txfile.PageID(0)
			if meth == "page-new-freed" {
				// a page allocated AND freed by the running transaction is a freed page as well
				p, err := tx.Alloc()
				if err != nil {
					tx.Close()
					rep.count("tx:page-new-freed:not-reachable(full file)", 1)
					continue
				}
				newFreed = p.ID()
				p.Free()
			}
			impl := guarded(func() error {
				switch meth {
				case "commit":
					return tx.Commit()
				case "rollback":
					return tx.Rollback()
				case "close":
					return tx.Close()
				case "alloc":
					_, err := tx.Alloc()
					return err
				case "allocn":
					_, err := tx.AllocN(2)
					return err
				case "flush":
					return tx.Flush()
				case "checkpoint":
					return tx.CheckpointWAL()
				case "page", "page-freed":
					_, err := tx.Page(livePage)
					return err
				case "page-new-freed":
					_, err := tx.Page(newFreed)
					return err
				case "page-oob":
					_, err := tx.Page(txfile.PageID(1 << 40))
					return err
				case "page-oob-end":
					// the first id past the committed data area
					_, err := tx.Page(txfile.PageID(txfile.VerifSnapshot(f).DataEnd))
					return err
				case "page-oob-hdr":
					// the two header pages are not data pages
					_, err := tx.Page(txfile.PageID(r.Intn(2)))
					return err
				default:
					// RootPage only touches a page when a root is set; make sure one is set
					tx.SetRoot(livePage)
					_, err := tx.RootPage()
					return err
				}
			})
			check("tx", st, meth, impl)
			// clean up: an active transaction is discarded
			guarded(func() error { return tx.Close() })
			if sh, pend, resv := txfile.VerifLockState(f); sh != 0 || pend || resv {
				rep.violate(Violation{Kind: "oracle", Sig: "misuse-changes-state/lock/" + st + "/" + meth,
					Detail: fmt.Sprintf("tx %s in state %s returned %s; after closing the transaction the file lock is not idle: %s", meth, st, impl, lkString(sh, pend, resv)),
					Replay: c15Replay{Config: cfg, Prefix: prefix, Object: "tx", State: st, Method: meth, Impl: impl}})
				return
			}
			if impl != "ok" {
				if d := diffDigest(stateBefore(), before); d != "" {
					rep.violate(Violation{Kind: "oracle", Sig: "misuse-changes-state/tx/" + st + "/" + meth,
						Detail: fmt.Sprintf("tx %s in state %s returned %s but changed the file state: %s", meth, st, impl, d),
						Replay: c15Replay{Config: cfg, Prefix: prefix, Object: "tx", State: st, Method: meth, Impl: impl}})
				}
			}
		}
	}
	// ---- SetRoot has no error result: on a read-only or finished transaction it must not change what Root() says
	for _, st := range []string{"ro", "done-ro", "done-rw"} {
		tx := makeTx(f, st, r)
		before := tx.Root()
		res := guarded(func() error { tx.SetRoot(livePage + 1); return nil })
		rep.Evaluations++
		rep.nontrivial("tx/" + st + "/setroot")
		if after := tx.Root(); res != "ok" || after != before {
			rep.violate(Violation{Kind: "oracle", Sig: "misuse-changes-state/tx/" + st + "/setroot",
				Detail: fmt.Sprintf("SetRoot on a transaction in state %s: %s; Root() was %d, is %d", st, res, before, after),
				Replay: c15Replay{Config: cfg, Prefix: prefix, Object: "tx", State: st, Method: "setroot", Impl: res}})
		}
		guarded(func() error { return tx.Close() })
	}
	// ---- a reader begun while a write transaction has grown the data area: the pages past the committed end
	// are out of range for it, while the writer is open and after it rolled back
	func() {
		endBefore := txfile.VerifSnapshot(f).DataEnd
		w, err := f.Begin()
		if err != nil {
			return
		}
		defer w.Close()
		grown := false
		for _, n := range []int{64, 16, 4, 1} {
			if _, err := w.AllocN(n); err == nil && txfile.VerifSnapshot(f).DataEnd > endBefore {
				grown = true
				break
			}
		}
		if !grown {
			rep.count("tx:ro-while-writer-allocates:not-reachable(full file)", 1)
			return
		}
		endNow := txfile.VerifSnapshot(f).DataEnd
		rd, err := f.BeginReadonly()
		if err != nil {
			return
		}
		defer rd.Close()
		probe := func(phase string) {
			for _, id := range []uint64{endBefore, endBefore + (endNow-endBefore)/2, endNow - 1} {
				impl := guarded(func() error { _, err := rd.Page(txfile.PageID(id)); return err })
				check("tx", "ro-while-writer-allocates", "page-oob-uncommitted/"+phase, impl)
			}
		}
		probe("writer-open")
		w.Rollback()
		probe("writer-rolled-back")
	}()
	// ---- accessors without an error result on a finished transaction: must not panic either
	for _, st := range []string{"done-rw", "done-ro"} {
		tx := makeTx(f, st, r)
		for name, fn := range map[string]func(){
			"Root": func() { tx.Root() }, "Active": func() { tx.Active() }, "Writable": func() { tx.Writable() },
			"Readonly": func() { tx.Readonly() }, "PageSize": func() { tx.PageSize() },
		} {
			impl := guarded(func() error { fn(); return nil })
			rep.Evaluations++
			rep.nontrivial("tx-accessor/" + st + "/" + name)
			if impl != "ok" {
				rep.violate(Violation{Kind: "oracle", Sig: "misuse/tx-accessor/" + name + "/panic",
					Detail: fmt.Sprintf("Tx.%s() on a finished transaction (%s): %s", name, st, impl),
					Replay: c15Replay{Config: cfg, Prefix: prefix, Object: "tx-accessor", State: st, Method: name, Impl: impl}})
			}
		}
	}
	// ---- Page matrix
	for li, lp := range pagesToTry {
		for _, ts := range []string{"rw", "ro", "done-rw"} {
			for _, pst0 := range []string{"new", "new-dirty", "clean", "dirty", "flushed", "freed", "clean+loaded", "dirty+loaded", "flushed+loaded", "freed+loaded"} {
				if li > 0 {
					if strings.HasPrefix(pst0, "new") {
						continue
					}
					rep.count("page-matrix/page-with-an-overwrite-page", 1)
				}
				// "+loaded": the page object already has its write buffer (an earlier Load) when it reaches the state
				pst := strings.TrimSuffix(pst0, "+loaded")
				preload := pst != pst0
				if ts == "ro" && pst != "clean" {
					continue
				}
				for _, meth := range []string{"bytes", "load", "setbytes", "setbytes-oversize", "markdirty", "free", "flush"} {
					before := stateBefore()
					var tx *txfile.Tx
					if ts == "ro" {
						tx, _ = f.BeginReadonly()
					} else {
						tx, _ = f.Begin()
					}
					var p *txfile.Page
					var perr error
					switch pst {
					case "new", "new-dirty":
						p, perr = tx.Alloc()
					default:
						p, perr = tx.Page(lp)
					}
					if perr != nil || p == nil {
						tx.Close()
						continue
					}
					if preload && ts != "ro" {
						p.Load()
					}
					switch pst {
					case "new-dirty", "dirty":
						p.SetBytes(make([]byte, ps))
					case "flushed":
						if preload {
							p.MarkDirty()
						} else {
							p.SetBytes(make([]byte, ps))
						}
						p.Flush()
					case "freed":
						p.Free()
					}
					if ts == "done-rw" {
						tx.Rollback()
					}
					impl := guarded(func() error {
						switch meth {
						case "bytes":
							_, err := p.Bytes()
							return err
						case "load":
							return p.Load()
						case "setbytes":
							return p.SetBytes(make([]byte, ps))
						case "setbytes-oversize":
							return p.SetBytes(make([]byte, ps+1))
						case "markdirty":
							return p.MarkDirty()
						case "free":
							return p.Free()
						default:
							return p.Flush()
						}
					})
					check("page", ts+"/"+pst, meth, impl)
					guarded(func() error { return tx.Close() })
					if d := diffDigest(stateBefore(), before); d != "" {
						rep.violate(Violation{Kind: "oracle", Sig: "misuse-changes-state/page/" + ts + "/" + pst + "/" + meth,
							Detail: fmt.Sprintf("page %s (%s/%s) returned %s; after discarding the transaction the file state changed: %s", meth, ts, pst, impl, d),
							Replay: c15Replay{Config: cfg, Prefix: prefix, Object: "page", State: ts + "/" + pst, Method: meth, Impl: impl}})
					}
				}
			}
		}
	}
	e.VerifyCommitted("after the misuse matrix")
	if len(e.Failures) > 0 {
		rep.violate(Violation{Kind: "oracle", Sig: "misuse-changes-contents", Detail: e.Failures[0], Replay: c15Replay{Config: cfg, Prefix: prefix}})
	}
}

// c15Queue runs the queue misuse matrix.
func c15Queue(rep *Report, m *model.Client, r *rand.Rand) {
	d := simdisk.New("q")
	f, err := txfile.VerifOpen(d, txfile.Options{PageSize: 1024, MaxSize: 256 * 1024})
	if err != nil {
		return
	}
	defer f.Close()
	del, err := pq.NewStandaloneDelegate(f)
	if err != nil {
		return
	}
	q, err := pq.New(del, pq.Settings{WriteBuffer: 4096})
	if err != nil {
		return
	}
	w, _ := q.Writer()
	n := r.Intn(6)
	for i := 0; i < n; i++ {
		w.Write(make([]byte, 10+r.Intn(300)))
		w.Next()
	}
	w.Flush()
	check := func(req, impl, sig string) {
		mod := m.Ask(req)
		rep.Evaluations++
		rep.count("queue:"+sig+"="+firstWord(impl), 1)
		rep.nontrivial("queue/" + sig)
		if impl != mod {
			// the matrix is the documented behaviour: a different answer of the implementation on this
			// (state, method) pair is the failing input itself
			kind := "oracle"
			rep.violate(Violation{Kind: kind, Sig: "misuse/queue/" + sig + "/" + firstWord(impl),
				Detail: fmt.Sprintf("queue %s returns %q, documented/model: %q", sig, impl, mod),
				Replay: c15Replay{Object: "queue", State: sig, Impl: impl, Model: mod}})
		}
	}
	rd := q.Reader()
	// reader without a transaction
	check("api_reader idle read", guarded(func() error { _, err := rd.Read(make([]byte, 8)); return err }), "reader/idle/read")
	check("api_reader idle next", guarded(func() error { _, err := rd.Next(); return err }), "reader/idle/next")
	check("api_reader idle available", guarded(func() error { _, err := rd.Available(); return err }), "reader/idle/available")
	check("api_reader idle begin", guarded(func() error { return rd.Begin() }), "reader/idle/begin")
	check("api_reader intx begin", guarded(func() error { return rd.Begin() }), "reader/intx/begin")
	check("api_reader intx next", guarded(func() error { _, err := rd.Next(); return err }), "reader/intx/next")
	rd.Done()
	// ACK
	pending, _ := q.Pending()
	check(fmt.Sprintf("api_ack 0 %s 1 0", b01(pending == 0)), guarded(func() error { return q.ACK(uint(pending + 1 + r.Intn(5))) }), fmt.Sprintf("ack/too-many/empty=%v", pending == 0))
	check("api_ack 0 0 0 1", guarded(func() error { return q.ACK(0) }), "ack/zero")
	// after a partial ACK (read pointer ahead of the head of its page) every count above the pending events is
	// still refused, in particular pending+1 .. pending+(events already ACKed in the head page)
	if pending >= 2 {
		acked := 1 + r.Intn(pending-1)
		if err := q.ACK(uint(acked)); err == nil {
			pending -= acked
			for extra := 1; extra <= acked+1; extra++ {
				check("api_ack 0 0 1 0", guarded(func() error { return q.ACK(uint(pending + extra)) }), fmt.Sprintf("ack/too-many-after-partial-ack/+%d", minInt(extra, 3)))
			}
		}
	}
	// counts that wrap around the 64-bit event id space are "more than is pending" too
	for _, huge := range []uint{^uint(0), ^uint(0) - 1, 1 << 63, 1<<63 + 5, 1<<63 - 1} {
		huge := huge
		check(fmt.Sprintf("api_ack 0 %s 1 0", b01(pending == 0)), guarded(func() error { return q.ACK(huge) }), fmt.Sprintf("ack/too-many/wrap-around/%s", map[bool]string{true: "empty", false: "pending"}[pending == 0]))
	}
	pending2, _ := q.Pending()
	if pending2 != pending {
		rep.violate(Violation{Kind: "oracle", Sig: "misuse-changes-state/queue/ack", Detail: fmt.Sprintf("a rejected ACK changed Pending from %d to %d", pending, pending2), Replay: c15Replay{Object: "queue", State: "ack"}})
	}
	// closed queue (with at least one pending event, so that an ACK that is not refused would remove it)
	if pending2 == 0 {
		w.Write(make([]byte, 20))
		w.Next()
		w.Flush()
	}
	// ... closed while the reader is inside a read transaction: reads are refused at once
	rd.Begin()
	pendingC, _ := q.Pending()
	q.Close()
	check("api_reader closed next", guarded(func() error { _, err := rd.Next(); return err }), "reader/closed-in-tx/next")
	check("api_reader closed read", guarded(func() error { _, err := rd.Read(make([]byte, 8)); return err }), "reader/closed-in-tx/read")
	check("api_reader closed available", guarded(func() error { _, err := rd.Available(); return err }), "reader/closed-in-tx/available")
	rd.Done()
	// ... and the objects the closed queue hands out are closed as well
	check("api_ack 1 0 0 0", guarded(func() error { return q.ACK(1) }), "ack/closed-queue")
	check("api_ack 1 0 0 1", guarded(func() error { return q.ACK(0) }), "ack/closed-queue/zero")
	check("api_reader closed begin", guarded(func() error { return q.Reader().Begin() }), "reader/closed/begin-on-fresh-reader")
	check("api_reader closed next", guarded(func() error { _, err := q.Reader().Next(); return err }), "reader/closed/next-on-fresh-reader")
	if w2, err := q.Writer(); err == nil {
		check("api_writer closed write", guarded(func() error { _, err := w2.Write([]byte{1}); return err }), "writer/closed/write-on-fresh-writer")
		check("api_writer closed flush", guarded(func() error { return w2.Flush() }), "writer/closed/flush-on-fresh-writer")
	} else {
		rep.count("queue:writer-of-a-closed-queue=error", 1)
	}
	if pendingD, _ := q.Pending(); pendingD != pendingC {
		rep.violate(Violation{Kind: "oracle", Sig: "misuse-changes-state/queue/closed", Detail: fmt.Sprintf("calls on a closed queue changed Pending from %d to %d", pendingC, pendingD), Replay: c15Replay{Object: "queue", State: "closed"}})
	}
	check("api_writer closed write", guarded(func() error { _, err := w.Write([]byte{1}); return err }), "writer/closed/write")
	check("api_writer closed next", guarded(func() error { return w.Next() }), "writer/closed/next")
	check("api_writer closed flush", guarded(func() error { return w.Flush() }), "writer/closed/flush")
	check("api_reader closed begin", guarded(func() error { return rd.Begin() }), "reader/closed/begin")
	check("api_reader closed read", guarded(func() error { _, err := rd.Read(make([]byte, 8)); return err }), "reader/closed/read")
	check("api_reader closed next", guarded(func() error { _, err := rd.Next(); return err }), "reader/closed/next")
	check("api_reader closed available", guarded(func() error { _, err := rd.Available(); return err }), "reader/closed/available")
}

// c15QueueFailedClose: Queue.Close whose final flush fails (complete events in the write buffer of a full file)
// returns the error - and the queue is closed all the same: the reader, the acker and the writers it handed out
// before answer like those of a closed queue, nothing changes the committed state any more.
func c15QueueFailedClose(rep *Report, m *model.Client, r *rand.Rand) {
	d := simdisk.New("qfull")
	f, err := txfile.VerifOpen(d, txfile.Options{PageSize: 1024, MaxSize: 64 * 1024})
	if err != nil {
		return
	}
	defer f.Close()
	del, err := pq.NewStandaloneDelegate(f)
	if err != nil {
		return
	}
	q, err := pq.New(del, pq.Settings{WriteBuffer: 4096})
	if err != nil {
		return
	}
	check := func(req, impl, sig string) {
		mod := m.Ask(req)
		rep.Evaluations++
		rep.count("queue:"+sig+"="+firstWord(impl), 1)
		rep.nontrivial("queue/" + sig)
		if impl != mod {
			rep.violate(Violation{Kind: "oracle", Sig: "misuse/queue/" + sig + "/" + firstWord(impl),
				Detail: fmt.Sprintf("queue %s returns %q, documented/model: %q", sig, impl, mod),
				Replay: c15Replay{Object: "queue", State: sig, Impl: impl, Model: mod}})
		}
	}
	w, err := q.Writer()
	if err != nil {
		return
	}
	// the application has used reader and ACK before
	for i := 0; i < 3; i++ {
		w.Write(make([]byte, 50))
		w.Next()
	}
	w.Flush()
	rd := q.Reader()
	if rd.Begin() == nil {
		if n, _ := rd.Next(); n > 0 {
			rd.Read(make([]byte, n))
		}
		rd.Done()
	}
	q.ACK(1)
	// fill the file until a flush fails, then leave complete events in the write buffer
	full := false
	for i := 0; i < 400 && !full; i++ {
		_, e1 := w.Write(make([]byte, 300+r.Intn(500)))
		e2 := w.Next()
		full = e1 != nil || e2 != nil
	}
	if !full {
		rep.count("queue:failed-close:not-reachable(file never full)", 1)
		return
	}
	w.Write(make([]byte, 40))
	w.Next()
	pending, _ := q.Pending()
	cerr := q.Close()
	if cerr == nil {
		rep.count("queue:failed-close:not-reachable(close succeeded)", 1)
		return
	}
	rep.count("scenario:queue-close-with-a-failing-final-flush", 1)
	check("api_reader closed begin", guarded(func() error { return rd.Begin() }), "reader/failed-close/begin")
	rd.Done()
	check("api_reader closed begin", guarded(func() error { return q.Reader().Begin() }), "reader/failed-close/begin-on-queue-reader")
	q.Reader().Done()
	check("api_ack 1 0 0 0", guarded(func() error { return q.ACK(1) }), "ack/failed-close")
	check("api_ack 1 0 0 1", guarded(func() error { return q.ACK(0) }), "ack/failed-close/zero")
	if w2, err := q.Writer(); err == nil {
		check("api_writer closed write", guarded(func() error { _, err := w2.Write([]byte{1}); return err }), "writer/failed-close/write-on-queue-writer")
	} else {
		rep.count("queue:writer-of-a-queue-whose-close-failed=error", 1)
	}
	check("api_writer closed write", guarded(func() error { _, err := w.Write([]byte{1}); return err }), "writer/failed-close/write")
	check("api_writer closed next", guarded(func() error { return w.Next() }), "writer/failed-close/next")
	check("api_writer closed flush", guarded(func() error { return w.Flush() }), "writer/failed-close/flush")
	if after, _ := q.Pending(); after != pending {
		rep.violate(Violation{Kind: "oracle", Sig: "misuse-changes-state/queue/failed-close", Detail: fmt.Sprintf("calls on a queue whose Close failed (%v) changed Pending from %d to %d", cerr, pending, after), Replay: c15Replay{Object: "queue", State: "failed-close"}})
	}
}

func init() {
	register("c15", func(args []string) int {
		f := parseFlags("c15", args)
		rep := newReport("C15", f)
		rep.Rule = "the complete lifecycle x method matrices (Tx: 4 states x 11 methods; Page: tx state x 6 page states x 7 methods; Writer / Reader / ACK of the queue) executed on the implementation after random prefix histories under recover(); outcome (ok / error kind / panic) compared with the Coq matrices; after an erroneous call the allocator state, mapping, root and all page contents must be unchanged. Non-trivial: every distinct (object, state, method)."
		m, err := model.Start()
		if err != nil {
			fmt.Fprintln(os.Stderr, err)
			return 2
		}
		defer m.Close()
		r := rand.New(rand.NewSource(f.seed))
		n := 5
		if f.tier == "thorough" {
			n = 200
		}
		if f.n > 0 {
			n = f.n
		}
		for i := 0; i < n; i++ {
			if rep.outOfTime() {
				break
			}
			hr := rand.New(rand.NewSource(r.Int63()))
			cfg := gen.PickConfig(hr)
			prof := gen.DefaultProfile()
			prof.Readers = false
			prof.MaxTx = 5
			prefix := gen.History(hr, prof)
			c15Matrix(rep, m, cfg, prefix, hr)
			c15Queue(rep, m, hr)
			c15QueueFailedClose(rep, m, hr)
			if i == 0 {
				rep.sample(map[string]interface{}{"config": cfg.String(), "prefix": opKinds(prefix)})
			}
		}
		rep.ModelCalls = m.N
		return rep.finish(f)
	})
}
