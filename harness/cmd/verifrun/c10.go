package main

import (
	"fmt"
	"math/rand"
	"os"

	txfile "github.com/elastic/go-txfile"

	"verifharness/engine"
	"verifharness/gen"
	"verifharness/model"
)

func init() {
	register("c10", func(args []string) int {
		f := parseFlags("c10", args)
		rep := newReport("C10", f)
		rep.Rule = "K1: region codec (ids up to 2^55, counts 1..2^32-1 incl. 253..257), free-list operations and allocator scripts vs. the Coq model; twin executions H;reopen;K vs H;K on two disks (exact allocator state + overwrite mapping + root compared right after the reopen, every result of K, all reads, final state and state after a final reopen); histories include fragmented free lists spanning several free-list pages, regions of 255+ pages, many pending overwrites (mapping spanning several pages) unbounded files grown past the initially mapped 64 KiB, and full bounded files whose free-list pages live in the overflow area past the size limit. Non-trivial: distinct (config, op statistics)."
		m, err := model.Start()
		if err != nil {
			fmt.Fprintln(os.Stderr, err)
			return 2
		}
		defer m.Close()
		if f.replay != "" {
			rp, err := loadTwinReplay(f.replay)
			if err != nil {
				fmt.Fprintln(os.Stderr, err)
				return 2
			}
			twinCase(rep, rp.Config, rp.H, rp.T, rp.K, rp.Seed, rp.Mode, true)
			return rep.finish(f)
		}
		r := rand.New(rand.NewSource(f.seed))
		n, nS := 200, 250
		if f.tier == "thorough" {
			n, nS = 4000, 10000
		}
		if f.n > 0 {
			n = f.n
		}
		allocK1(rep, m, r, nS, nS*2, nS*4)
		pagesK1(rep, m, r, nS/2, false)
		// recovery model vs. the open path on the images of random histories
		for i := 0; i < n/4+5; i++ {
			if rep.outOfTime() {
				break
			}
			hr := rand.New(rand.NewSource(r.Int63()))
			cfg := gen.PickConfig(hr)
			prof := gen.DefaultProfile()
			prof.Readers = false
			e, err := engine.RunHistory(cfg, gen.History(hr, prof), nil)
			if err != nil {
				continue
			}
			if e.Tx != nil {
				e.Apply(engine.Op{Kind: "commit"})
			}
			e.Apply(engine.Op{Kind: "reopen"})
			recoverK1(rep, m, e, "after-history")
			rep.Evaluations++
			e.Close()
		}
		// directed: a nearly full bounded file whose meta area is completely in use and which never freed a page: no
		// free list is stored (free-list root 0) although the meta area is not empty (seeded change C10k)
		for _, maxPages := range []int{16, 17, 19, 21, 24} {
			for over := 1; over <= 4; over++ {
				cfg := engine.Config{PageSize: 4096, MaxSize: uint64(maxPages) * 4096}
				H := []engine.Op{{Kind: "begin"}, {Kind: "alloc", N: 10}}
				for k := 0; k < 10; k++ {
					H = append(H, engine.Op{Kind: "setfull", P: k, Seed: 3 + k})
				}
				H = append(H, engine.Op{Kind: "commit"}, engine.Op{Kind: "begin", WALLimit: 1000})
				for k := 0; k < over; k++ {
					H = append(H, engine.Op{Kind: "setfull", P: k, Seed: 40 + k})
				}
				H = append(H, engine.Op{Kind: "commit"})
				K := []engine.Op{{Kind: "begin", WALLimit: 1000}, {Kind: "checkpoint"}, {Kind: "commit"},
					{Kind: "begin"}, {Kind: "alloc", N: 2}, {Kind: "commit"},
					{Kind: "begin", WALLimit: 1000}, {Kind: "setfull", P: 5, Seed: 77}, {Kind: "commit"},
					{Kind: "begin"}, {Kind: "alloc", N: 1}, {Kind: "alloc", N: 1}, {Kind: "commit"}}
				twinCase(rep, cfg, H, []engine.Op{{Kind: "reopen"}}, K, int64(1000+maxPages*10+over), "reopen", true)
				if e, err := engine.RunHistory(cfg, H, nil); err == nil {
					if e.File != nil {
						if sn := txfile.VerifSnapshot(e.File); sn.FreelistRoot == 0 && sn.MetaTotal > 0 {
							rep.count("scenario:no-free-list-although-the-meta-area-is-in-use", 1)
						}
					}
					e.Apply(engine.Op{Kind: "reopen"})
					recoverK1(rep, m, e, "no-free-list")
					e.Close()
				}
			}
		}
		for i := 0; i < n; i++ {
			if rep.outOfTime() {
				break
			}
			hseed := r.Int63()
			hr := rand.New(rand.NewSource(hseed))
			cfg := gen.PickConfig(hr)
			prof := gen.DefaultProfile()
			prof.Readers = false
			prof.Reopen = false
			prof.MaxTx = 6
			var H []engine.Op
			switch i % 5 {
			case 0:
				// heavy fragmentation: many pages, every other one freed -> multi page free lists
				cfg = engine.Config{PageSize: 1024, MaxSize: 0, InitMetaArea: uint32(hr.Intn(3) * 4)}
				H = fragmentOps(hr, 200+hr.Intn(400))
			case 1:
				// big regions (>= 255 pages) and a file grown far beyond the initial mapping
				cfg = engine.Config{PageSize: 1024, MaxSize: 0}
				H = []engine.Op{{Kind: "begin"}, {Kind: "alloc", N: 300 + hr.Intn(400)}, {Kind: "commit"},
					{Kind: "begin"}, {Kind: "alloc", N: 260}, {Kind: "commit"}}
				H = append(H, freeRangeOps(hr, 256+hr.Intn(40))...)
			case 2:
				// many pending overwrites: mapping pages (73 entries per 1 KiB page)
				cfg = engine.Config{PageSize: 1024, MaxSize: 0, InitMetaArea: 8}
				H = overwriteOps(hr, 80+hr.Intn(120))
			case 3:
				// a bounded file that is completely full; an overflow-enabled transaction frees pages, its
				// free-list pages live past the size limit: the file on disk is larger than MaxSize at the reopen
				cfg = engine.Config{PageSize: 1024, MaxSize: uint64(64+hr.Intn(64)) * 1024, InitMetaArea: uint32(hr.Intn(2) * 2)}
				H = fillAllOps(hr)
				H = append(H, engine.Op{Kind: "begin", Overflow: true})
				for k := 1 + hr.Intn(6); k > 0; k-- {
					H = append(H, engine.Op{Kind: "free", P: hr.Intn(1 << 16)})
				}
				H = append(H, engine.Op{Kind: "commit"})
				if hr.Intn(2) == 0 {
					// overwrites push more meta pages (overwrite pages) past the limit; a later transaction frees
					// data pages and checkpoints: its commit releases pages of the overflow area again
					H = append(H, engine.Op{Kind: "begin", Overflow: true, WALLimit: 1000})
					for k := 2 + hr.Intn(8); k > 0; k-- {
						H = append(H, engine.Op{Kind: "setfull", P: hr.Intn(1 << 16), Seed: 1 + hr.Intn(1000)})
					}
					H = append(H, engine.Op{Kind: "commit"}, engine.Op{Kind: "begin", Overflow: true})
					for k := 4 + hr.Intn(10); k > 0; k-- {
						H = append(H, engine.Op{Kind: "free", P: hr.Intn(1 << 16)})
					}
					H = append(H, engine.Op{Kind: "checkpoint"}, engine.Op{Kind: "commit"})
					if hr.Intn(2) == 0 {
						H = append(H, engine.Op{Kind: "begin", Overflow: true}, engine.Op{Kind: "checkpoint"}, engine.Op{Kind: "commit"})
					}
					rep.count("scenario:overflow-area-released-before-reopen", 1)
				}
				rep.count("scenario:full-bounded-file-with-overflow-area", 1)
			default:
				H = gen.History(hr, prof)
			}
			K := gen.History(hr, prof)
			re := engine.Op{Kind: "reopen"}
			if cfg.MaxSize != 0 && i%3 == 1 {
				// the reopen passes a different maximum size but not FlagUpdMaxSize: the stored size is what counts
				// (seeded change C10n: the option takes precedence over the file header)
				re.MaxSize = []uint64{cfg.MaxSize * 2, cfg.MaxSize + 64*1024, 64 * 1024, cfg.MaxSize * 8}[(i/3)%4]
				rep.count("reopen-with-another-max-size-option-and-no-flag", 1)
			}
			twinCase(rep, cfg, H, []engine.Op{re}, K, hseed, "reopen", true)
			if i < 3 {
				rep.sample(map[string]interface{}{"config": cfg.String(), "prefix_ops": len(H), "continuation": opKinds(K)})
			}
		}
		rep.ModelCalls = m.N
		return rep.finish(f)
	})
}

// fillAllOps allocates until the file is full (allocations that do not fit fail and change nothing).
func fillAllOps(r *rand.Rand) []engine.Op {
	ops := []engine.Op{{Kind: "begin"}}
	for _, n := range []int{64, 32, 16, 8, 4, 2, 1, 1, 1, 1, 1, 1} {
		ops = append(ops, engine.Op{Kind: "alloc", N: n})
	}
	for i := 0; i < 6; i++ {
		ops = append(ops, engine.Op{Kind: "setfull", P: r.Intn(1 << 16), Seed: 1 + r.Intn(1000)})
	}
	return append(ops, engine.Op{Kind: "commit"})
}

func fragmentOps(r *rand.Rand, pages int) []engine.Op {
	ops := []engine.Op{{Kind: "begin"}, {Kind: "alloc", N: pages}, {Kind: "commit"}, {Kind: "begin"}}
	// free every other page (logical indices shift as pages are freed: index i removes the i-th of the remaining)
	for i := 0; i < pages/2; i++ {
		ops = append(ops, engine.Op{Kind: "free", P: i + 1})
	}
	return append(ops, engine.Op{Kind: "commit"})
}

func freeRangeOps(r *rand.Rand, n int) []engine.Op {
	ops := []engine.Op{{Kind: "begin"}}
	for i := 0; i < n; i++ {
		ops = append(ops, engine.Op{Kind: "free", P: 10}) // always the 10th remaining page: a contiguous run
	}
	return append(ops, engine.Op{Kind: "commit"})
}

func overwriteOps(r *rand.Rand, pages int) []engine.Op {
	ops := []engine.Op{{Kind: "begin"}, {Kind: "alloc", N: pages}, {Kind: "commit"}, {Kind: "begin", WALLimit: 100000}}
	for i := 0; i < pages; i++ {
		ops = append(ops, engine.Op{Kind: "setfull", P: i, Seed: 1 + r.Intn(1000)})
	}
	return append(ops, engine.Op{Kind: "commit"})
}

var _ = txfile.FlagUpdMaxSize
