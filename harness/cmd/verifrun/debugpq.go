package main

import (
	"fmt"
	"math/rand"
	"strconv"

	"verifharness/pqengine"
)

func init() {
	register("debugc12", func(args []string) int {
		seed, _ := strconv.ParseInt(args[0], 10, 64)
		cfg := pqengine.Config{PageSize: 1024, MaxSize: 64 * 1024, WriteBuffer: 0}
		r := rand.New(rand.NewSource(seed))
		e, _ := pqengine.New(cfg)
		for i := 0; i < 400 && e.Queue != nil; i++ {
			n := 1 + r.Intn(3*int(cfg.PageSize))
			if r.Intn(4) == 0 {
				n = 1 + r.Intn(64)
			}
			res := e.Apply(pqengine.Op{Kind: "event", N: n, Seed: i})
			if res == "oom" {
				break
			}
			if r.Intn(5) == 0 {
				if e.Apply(pqengine.Op{Kind: "flush"}) == "oom" {
					break
				}
			}
		}
		fmt.Println("events", len(e.Events), "flushed", e.Flushed)
		e.Apply(pqengine.Op{Kind: "rbegin"})
		e.Apply(pqengine.Op{Kind: "readall"})
		fmt.Println("readpos", e.ReadPos, "failures", e.Failures)
		for _, l := range e.Log[len(e.Log)-12:] {
			fmt.Println(l)
		}
		p, _ := e.Queue.Pending()
		fmt.Println("pending", p)
		return 0
	})
}
