package main

import (
	"fmt"
	"math/rand"
	"strings"

	txfile "github.com/elastic/go-txfile"

	"verifharness/model"
)

// K1 correspondence for the allocator model (Model/Alloc.v), the free list (Model/Freelist.v) and the
// region codec (Model/Region.v): the same scripts run on the implementation (bare allocator via the
// verif hook) and on the extracted model; the complete state is compared after every operation.

func flat(regs []txfile.VerifRegion) string {
	s := make([]string, 0, 2*len(regs))
	for _, r := range regs {
		s = append(s, fmt.Sprint(r.ID), fmt.Sprint(r.Count))
	}
	return "[" + strings.Join(s, ",") + "]"
}

func b01(b bool) string {
	if b {
		return "1"
	}
	return "0"
}

// allocStateString renders a snapshot exactly like ocaml/alloc_driver.ml state_string.
func allocStateString(s txfile.VerifAllocSnap) string {
	base := fmt.Sprintf("%d %d %d %d %d %s %d %d %s %d %s", s.MaxPages, s.PageSize,
		s.MetaEnd, s.MetaTotal, s.MetaAvail, flat(s.MetaFree),
		s.DataEnd, s.DataAvail, flat(s.DataFree), s.FreelistRoot, flat(s.FreelistPages))
	if !s.HasTx {
		return base + " 0"
	}
	st := make([]uint64, 7)
	for i, v := range s.Stats {
		st[i] = uint64(v)
	}
	return base + fmt.Sprintf(" 1 %s %d %s %s %s %d %s %s %s %s %d %s", flat(s.MoveToMeta),
		s.DataEnd0, model.List(s.DataAllocated), model.List(s.DataNew), model.List(s.DataFreed),
		s.MetaEnd0, model.List(s.MetaAllocated), model.List(s.MetaNew), model.List(s.MetaFreed),
		b01(s.Overflow), s.Pct, model.List(st))
}

type allocReplay struct {
	Init  string   `json:"init_state"`
	Ops   []string `json:"ops"`
	Step  int      `json:"step"`
	Impl  string   `json:"impl"`
	Model string   `json:"model"`
}

// randRegions builds a sorted, non adjacent region list inside [lo, hi).
func randRegions(r *rand.Rand, lo, hi uint64, maxRegs int) []txfile.VerifRegion {
	var out []txfile.VerifRegion
	pos := lo
	for len(out) < maxRegs && pos < hi {
		pos += uint64(1 + r.Intn(4))
		if pos >= hi {
			break
		}
		c := uint64(1 + r.Intn(6))
		if r.Intn(12) == 0 {
			c = uint64(250 + r.Intn(12))
		}
		if pos+c > hi {
			c = hi - pos
		}
		if c == 0 {
			break
		}
		out = append(out, txfile.VerifRegion{ID: pos, Count: uint32(c)})
		pos += c
	}
	return out
}

// allocScript runs one random script; returns the number of ops executed.
func allocScript(rep *Report, m *model.Client, r *rand.Rand) int {
	pageSize := uint(1024)
	var maxPages uint
	switch r.Intn(4) {
	case 0:
		maxPages = 0
	case 1:
		maxPages = uint(20 + r.Intn(60))
	default:
		maxPages = uint(64 + r.Intn(400))
	}
	limit := uint64(maxPages)
	if limit == 0 {
		limit = uint64(100 + r.Intn(600))
	}
	end := uint64(2 + r.Intn(int(limit-2)+1))
	if maxPages != 0 && r.Intn(5) == 0 {
		end = uint64(maxPages) // data area completely used up to the limit
	}
	metaTotal := uint(0)
	var dataFree, metaFree []txfile.VerifRegion
	all := randRegions(r, 2, end, 12)
	// split the free regions between data and meta; meta in-use pages are implicit
	for _, rg := range all {
		if r.Intn(3) == 0 {
			metaFree = append(metaFree, rg)
			metaTotal += uint(rg.Count)
		} else {
			dataFree = append(dataFree, rg)
		}
	}
	metaTotal += uint(r.Intn(4)) // some meta pages in use
	metaEnd, dataEnd := end, end
	if maxPages != 0 && end == uint64(maxPages) && r.Intn(2) == 0 {
		// committed overflow area beyond the page limit (only exists when the data area reaches the limit)
		extra := uint64(1 + r.Intn(4))
		metaFree = append(metaFree, txfile.VerifRegion{ID: end, Count: uint32(extra)})
		metaTotal += uint(extra)
		metaEnd = end + extra
		if r.Intn(2) == 0 {
			// ... and the page limit was raised afterwards (open with FlagUpdMaxSize): the data area
			// must grow around the old overflow area (D12)
			if r.Intn(3) == 0 {
				maxPages = 0
			} else {
				maxPages += uint(1 + r.Intn(40))
			}
			// the grow transaction moves the data end marker past the former overflow area
			dataEnd = metaEnd
			if maxPages > 0 && uint64(maxPages) < dataEnd {
				dataEnd = uint64(maxPages)
			}
		}
	}
	if r.Intn(4) == 0 && dataEnd > 14 {
		// the limit was lowered below the extent of the file (open with FlagUpdMaxSize on a bigger file): the end
		// markers are beyond the limit (D17, D18); optionally an overflow area with used and free pages follows
		maxPages = uint(10 + r.Intn(int(dataEnd)-12))
		if metaEnd == dataEnd && r.Intn(2) == 0 {
			used, free := uint64(r.Intn(3)), uint64(r.Intn(4))
			if free > 0 {
				start := metaEnd
				if r.Intn(2) == 0 {
					start += used // used pages first, the free ones at the very end of the file
				}
				metaFree = append(metaFree, txfile.VerifRegion{ID: start, Count: uint32(free)})
			}
			metaTotal += uint(used + free)
			metaEnd += used + free
		}
		rep.count("alloc-init:limit-below-extent", 1)
	}
	v := txfile.NewVerifAllocator(pageSize, maxPages, dataEnd, metaEnd, metaTotal, dataFree, metaFree)
	init := allocStateString(v.Snap())
	if res := m.Ask("alloc_set " + init); res != "ok" {
		rep.violate(Violation{Kind: "correspondence", Sig: "alloc-script/set-state", Detail: res, Replay: allocReplay{Init: init}})
		return 0
	}
	var ops []string
	var beginSnap txfile.VerifAllocSnap
	inTx := false
	var owned []uint64 // data pages handed out in this tx
	nops := 5 + r.Intn(40)
	for i := 0; i < nops; i++ {
		var req, impl string
		if !inTx {
			ovf := r.Intn(4) == 0
			pct := []int{0, 0, 10, 50, 100}[r.Intn(5)]
			beginSnap = v.Snap()
			v.Begin(ovf, pct)
			req, impl = fmt.Sprintf("begin %s %d", b01(ovf), pct), "ok"
			inTx = true
			owned = owned[:0]
		} else {
			switch x := r.Intn(100); {
			case x < 25:
				n := uint(1 + r.Intn(8))
				if r.Intn(10) == 0 {
					n = uint(20 + r.Intn(200))
				}
				regs, cnt, p := v.DataAlloc(n)
				req = fmt.Sprintf("dalloc %d", n)
				impl = fmt.Sprintf("%s %d", flat(regs), cnt)
				if p {
					impl = "panic"
				}
				for _, rg := range regs {
					for k := uint64(0); k < uint64(rg.Count); k++ {
						owned = append(owned, rg.ID+k)
					}
				}
			case x < 30:
				n := uint(1 + r.Intn(6))
				reg, p := v.DataAllocCont(n)
				req = fmt.Sprintf("dcont %d", n)
				impl = fmt.Sprintf("%d %d", reg.ID, reg.Count)
				if p {
					impl = "panic"
				}
			case x < 50:
				// free: a page handed out in this tx, or some committed-live page (not in any free list)
				var id uint64
				if len(owned) > 0 && r.Intn(2) == 0 {
					k := r.Intn(len(owned))
					id = owned[k]
					owned = append(owned[:k], owned[k+1:]...)
				} else {
					s := v.Snap()
					id = pickLive(r, s)
					if id == 0 {
						continue
					}
				}
				p := v.DataFree(id)
				req, impl = fmt.Sprintf("dfree %d", id), "ok"
				if p {
					impl = "panic"
				}
			case x < 68:
				id, p := v.WalAlloc()
				req, impl = "walloc", fmt.Sprint(id)
				if p {
					impl = "panic"
				}
			case x < 74:
				s := v.Snap()
				if len(s.MetaAllocated) == 0 {
					continue
				}
				id := s.MetaAllocated[r.Intn(len(s.MetaAllocated))]
				v.WalFree(id)
				req, impl = fmt.Sprintf("wfree %d", id), "ok"
			case x < 80:
				n := uint(1 + r.Intn(3))
				regs, p := v.MetaAlloc(n)
				req, impl = fmt.Sprintf("malloc %d", n), flat(regs)
				if p {
					impl = "panic"
				}
			case x < 90:
				extra := r.Intn(3) == 0
				out := v.Commit(extra)
				req, impl = "commit "+b01(extra), out
				if out == "ok" {
					inTx = false
				}
			case x < 93:
				// a commit that fails after its allocation step and is rolled back
				extra := r.Intn(3) == 0
				out := v.CommitFail(extra)
				req, impl = "commitfail "+b01(extra), out
				if out == "ok" {
					inTx = false
				}
			default:
				v.Rollback()
				req, impl = "rollback", "ok"
				inTx = false
			}
		}
		ops = append(ops, req)
		impl = impl + " ; " + allocStateString(v.Snap())
		mod := m.Ask("alloc_op " + req)
		rep.count("alloc:"+firstWord(req), 1)
		if impl != mod && !inTx && (firstWord(req) == "commitfail" || firstWord(req) == "rollback") {
			// the model and the implementation disagree on the state an aborted transaction leaves: is the
			// implementation's state the one the transaction began with (C07)?
			if d := allocSetsDiff(beginSnap, v.Snap()); d != "" {
				rep.violate(Violation{Kind: "oracle", Sig: "alloc-script/abort-leaves-trace/" + firstWord(req),
					Detail: fmt.Sprintf("allocator script: after %q (step %d) the allocator is not in the state the transaction began with: %s", req, len(ops)-1, d),
					Replay: allocReplay{Init: init, Ops: ops, Step: len(ops) - 1, Impl: impl, Model: mod}})
				return len(ops)
			}
		}
		if impl != mod {
			rep.violate(Violation{Kind: "correspondence", Sig: "alloc-script/" + firstWord(req),
				Detail: fmt.Sprintf("allocator model differs from implementation after %q (step %d): impl=%q model=%q", req, len(ops)-1, impl, mod),
				Replay: allocReplay{Init: init, Ops: ops, Step: len(ops) - 1, Impl: impl, Model: mod}})
			return len(ops)
		}
		if strings.HasPrefix(impl, "panic") {
			return len(ops)
		}
	}
	return len(ops)
}

// allocSetsDiff compares two allocator states as sets of free pages + markers + counters.
func allocSetsDiff(a, b txfile.VerifAllocSnap) string {
	ids := func(l []txfile.VerifRegion) map[uint64]bool {
		m := map[uint64]bool{}
		for _, r := range l {
			for id := r.ID; id < r.ID+uint64(r.Count); id++ {
				m[id] = true
			}
		}
		return m
	}
	same := func(x, y map[uint64]bool) bool {
		if len(x) != len(y) {
			return false
		}
		for k := range x {
			if !y[k] {
				return false
			}
		}
		return true
	}
	switch {
	case a.DataEnd != b.DataEnd || a.MetaEnd != b.MetaEnd:
		return fmt.Sprintf("end markers (data %d, meta %d), before (data %d, meta %d)", b.DataEnd, b.MetaEnd, a.DataEnd, a.MetaEnd)
	case a.MetaTotal != b.MetaTotal:
		return fmt.Sprintf("meta area size %d, before %d", b.MetaTotal, a.MetaTotal)
	case !same(ids(a.DataFree), ids(b.DataFree)) || a.DataAvail != b.DataAvail:
		return fmt.Sprintf("data free list %v (avail %d), before %v (avail %d)", b.DataFree, b.DataAvail, a.DataFree, a.DataAvail)
	case !same(ids(a.MetaFree), ids(b.MetaFree)) || a.MetaAvail != b.MetaAvail:
		return fmt.Sprintf("meta free list %v (avail %d), before %v (avail %d)", b.MetaFree, b.MetaAvail, a.MetaFree, a.MetaAvail)
	}
	return ""
}

// pickLive returns a page id in [2, dataEnd) that is in no free list and in no tx set (a live page).
func pickLive(r *rand.Rand, s txfile.VerifAllocSnap) uint64 {
	if s.DataEnd <= 2 {
		return 0
	}
	used := map[uint64]bool{}
	mark := func(regs []txfile.VerifRegion) {
		for _, rg := range regs {
			for k := uint64(0); k < uint64(rg.Count); k++ {
				used[rg.ID+k] = true
			}
		}
	}
	mark(s.DataFree)
	mark(s.MetaFree)
	mark(s.FreelistPages)
	for _, l := range [][]uint64{s.DataAllocated, s.DataNew, s.DataFreed, s.MetaAllocated, s.MetaNew, s.MetaFreed} {
		for _, id := range l {
			used[id] = true
		}
	}
	for try := 0; try < 20; try++ {
		id := 2 + uint64(r.Intn(int(s.DataEnd-2)))
		if !used[id] {
			return id
		}
	}
	return 0
}

// freelistCases compares single free-list operations.
func freelistCases(rep *Report, m *model.Client, r *rand.Rand, n int) {
	for i := 0; i < n; i++ {
		regs := randRegions(r, 2, uint64(40+r.Intn(400)), 1+r.Intn(10))
		if r.Intn(6) == 0 && len(regs) > 1 {
			// unmerged adjacent regions (as produced by region lists that were never optimized)
			regs[1].ID = regs[0].ID + uint64(regs[0].Count)
			for k := 2; k < len(regs); k++ {
				if regs[k].ID < regs[k-1].ID+uint64(regs[k-1].Count) {
					regs = regs[:k]
					break
				}
			}
		}
		var avail uint
		for _, rg := range regs {
			avail += uint(rg.Count)
		}
		fromEnd := r.Intn(2) == 0
		var op, req string
		var a, b uint64
		var list []txfile.VerifRegion
		hi := uint64(2)
		if len(regs) > 0 {
			hi = regs[len(regs)-1].ID + uint64(regs[len(regs)-1].Count)
		}
		switch r.Intn(7) {
		case 0:
			op, a = "alloc", uint64(r.Intn(int(avail)+3))
			req = fmt.Sprintf("alloc %s %d", b01(fromEnd), a)
		case 1:
			op, a = "cont", uint64(r.Intn(12))
			req = fmt.Sprintf("cont %s %d", b01(fromEnd), a)
		case 2:
			// add a region that does not overlap
			free := gaps(regs, hi+6)
			if len(free) == 0 {
				continue
			}
			g := free[r.Intn(len(free))]
			c := uint64(1 + r.Intn(int(g.Count)))
			off := uint64(r.Intn(int(uint64(g.Count) - c + 1)))
			op, a, b = "add", g.ID+off, c
			req = fmt.Sprintf("add %d %d", a, b)
		case 3:
			free := gaps(regs, hi+10)
			for _, g := range free {
				if r.Intn(2) == 0 {
					list = append(list, txfile.VerifRegion{ID: g.ID, Count: uint32(1 + r.Intn(int(g.Count)))})
				}
			}
			op = "addall"
			req = "addall " + flat(list)
		case 4:
			a = uint64(r.Intn(int(hi) + 4))
			b = uint64(1 + r.Intn(30))
			op = "remove"
			req = fmt.Sprintf("remove %d %d", a, b)
		case 5:
			a = uint64(r.Intn(int(hi) + 2))
			b = hi
			if r.Intn(4) == 0 {
				b = hi + uint64(r.Intn(3))
			}
			op = "release"
			req = fmt.Sprintf("release %d %d", a, b)
		default:
			// optimize needs an unsorted list: shuffle single page regions
			var single []txfile.VerifRegion
			for _, rg := range regs {
				for k := uint64(0); k < uint64(rg.Count) && len(single) < 60; k++ {
					single = append(single, txfile.VerifRegion{ID: rg.ID + k, Count: 1})
				}
			}
			r.Shuffle(len(single), func(x, y int) { single[x], single[y] = single[y], single[x] })
			regs = single
			op, req = "optimize", "optimize"
		}
		res, num, outAvail, out, p := txfile.VerifFreelistOp(avail, regs, op, fromEnd, a, b, list)
		var impl string
		switch {
		case p:
			impl = "panic"
		case op == "alloc":
			impl = flat(res) + fmt.Sprintf(" ; %d %s", outAvail, flat(out))
		case op == "cont":
			impl = fmt.Sprintf("%d %d ; %d %s", res[0].ID, res[0].Count, outAvail, flat(out))
		case op == "release":
			impl = fmt.Sprintf("%d ; %s", num, flat(out))
		case op == "optimize":
			impl = "ok ; " + flat(out)
		default:
			impl = fmt.Sprintf("ok ; %d %s", outAvail, flat(out))
		}
		mod := m.Ask(fmt.Sprintf("flop %d %s %s", avail, flat(regs), req))
		rep.Evaluations++
		rep.count("freelist:"+op, 1)
		rep.nontrivial("fl/" + req + "/" + flat(regs))
		if i < 1 {
			rep.sample(map[string]string{"freelist": flat(regs), "op": req, "impl": impl, "model": mod})
		}
		if impl != mod {
			rep.violate(Violation{Kind: "correspondence", Sig: "freelist/" + op,
				Detail: fmt.Sprintf("free list %s on %s (avail %d): impl=%q model=%q", req, flat(regs), avail, impl, mod),
				Replay: map[string]interface{}{"freelist": flat(regs), "avail": avail, "op": req, "impl": impl, "model": mod}})
		}
	}
}

func gaps(regs []txfile.VerifRegion, hi uint64) []txfile.VerifRegion {
	var out []txfile.VerifRegion
	pos := uint64(2)
	for _, rg := range regs {
		if rg.ID > pos {
			out = append(out, txfile.VerifRegion{ID: pos, Count: uint32(rg.ID - pos)})
		}
		pos = rg.ID + uint64(rg.Count)
	}
	if hi > pos {
		out = append(out, txfile.VerifRegion{ID: pos, Count: uint32(hi - pos)})
	}
	return out
}

// codecCases compares the region codec.
func codecCases(rep *Report, m *model.Client, r *rand.Rand, n int) {
	for i := 0; i < n; i++ {
		id := r.Uint64() >> uint(9+r.Intn(55))
		var count uint32
		switch r.Intn(5) {
		case 0:
			count = uint32(1 + r.Intn(3))
		case 1:
			count = uint32(253 + r.Intn(5))
		case 2:
			count = r.Uint32()
		default:
			count = uint32(1 + r.Intn(300))
		}
		isMeta := r.Intn(2) == 0
		enc := txfile.VerifEncodeRegion(isMeta, id, count)
		mod := m.Ask(fmt.Sprintf("encregion %s %d %d", b01(isMeta), id, count))
		rep.Evaluations++
		rep.count("codec:encode", 1)
		rep.nontrivial(fmt.Sprintf("enc/%d/%d", id, count))
		if model.Hex(enc) != mod {
			rep.violate(Violation{Kind: "correspondence", Sig: "region-codec/encode",
				Detail: fmt.Sprintf("encodeRegion(%v,%d,%d): impl=%s model=%s", isMeta, id, count, model.Hex(enc), mod),
				Replay: map[string]interface{}{"isMeta": isMeta, "id": id, "count": count}})
		}
		// decode: the encoding, or random bytes
		buf := make([]byte, 12)
		if r.Intn(3) == 0 {
			r.Read(buf)
		} else {
			copy(buf, enc)
		}
		dm, did, dc, dn := txfile.VerifDecodeRegion(buf)
		impl := fmt.Sprintf("%s %d %d %d", b01(dm), did, dc, dn)
		mod = m.Ask("decregion " + model.Hex(buf))
		rep.count("codec:decode", 1)
		if impl != mod {
			rep.violate(Violation{Kind: "correspondence", Sig: "region-codec/decode",
				Detail: fmt.Sprintf("decodeRegion(%s): impl=%q model=%q", model.Hex(buf), impl, mod),
				Replay: map[string]interface{}{"bytes": model.Hex(buf)}})
		}
		// round trip oracle on the implementation
		if count >= 1 && id < 1<<55 {
			m2, id2, c2, n2 := txfile.VerifDecodeRegion(append(append([]byte(nil), enc...), make([]byte, 12)...))
			if m2 != isMeta || id2 != id || c2 != count || n2 != len(enc) {
				rep.violate(Violation{Kind: "oracle", Sig: "region-codec/roundtrip",
					Detail: fmt.Sprintf("decode(encode(%v,%d,%d)) = (%v,%d,%d,%d)", isMeta, id, count, m2, id2, c2, n2),
					Replay: map[string]interface{}{"isMeta": isMeta, "id": id, "count": count}})
			}
		}
	}
	// quota
	for i := 0; i < n/4; i++ {
		total, used := uint(r.Intn(300)), uint(r.Intn(400))
		grow := []int{80, 10, 50, 100, 1 + r.Intn(100)}[r.Intn(5)]
		mn, mx := txfile.VerifQuota(total, used, grow/2, grow)
		mod := m.Ask(fmt.Sprintf("quota %d %d %d %d", total, used, grow/2, grow))
		rep.Evaluations++
		rep.count("quota", 1)
		if impl := fmt.Sprintf("%d %d", mn, mx); impl != mod {
			rep.violate(Violation{Kind: "correspondence", Sig: "quota",
				Detail: fmt.Sprintf("metaAreaTargetQuota(%d,%d,%d,%d): impl=%q model=%q", total, used, grow/2, grow, impl, mod),
				Replay: map[string]interface{}{"total": total, "used": used, "grow": grow}})
		}
	}
}

func allocK1(rep *Report, m *model.Client, r *rand.Rand, nScripts, nFreelist, nCodec int) {
	for i := 0; i < nScripts; i++ {
		n := allocScript(rep, m, r)
		rep.Evaluations++
		rep.count("alloc:scripts", 1)
		rep.nontrivial(fmt.Sprintf("script/%d/%d", i, n))
	}
	freelistCases(rep, m, r, nFreelist)
	codecCases(rep, m, r, nCodec)
}
