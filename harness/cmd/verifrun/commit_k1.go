package main

import (
	"encoding/binary"
	"fmt"
	"sort"
	"strings"

	txfile "github.com/elastic/go-txfile"

	"verifharness/engine"
	"verifharness/model"
	"verifharness/simdisk"
)

// K1 for the commit protocol (Model/Commit.v: tx.go tryCommitChangesToFile / syncNewMeta). After every successful
// commit of a history the disk calls of that commit (between the markers commit-begin and commit-ok) are compared with
// the events the model produces from the state the PROCESS holds after the commit:
//   - the pages of the new overwrite mapping and of the new free lists: model bytes (write_wal / write_freelists of the
//     in-memory free lists and of the mapping entries) == bytes written, page for page, before the first sync;
//   - every other page write of the commit lies before the first sync and touches neither header page;
//   - then exactly: sync, one write of the inactive header page whose bytes are the model's encoding of the header,
//     sync; nothing else.
// Two inputs come from the file: the order of the pages in the two chains and of the mapping entries (Go map iteration
// order); the entries as a set are checked against the process' mapping.

// commitK1Model: when set, every history run through runOracleHistory compares its commits with the model
var commitK1Model *model.Client

func commitK1Hook(rep *Report, m *model.Client) func(e *engine.Engine, op engine.Op, res engine.Result) {
	return func(e *engine.Engine, op engine.Op, res engine.Result) {
		if (op.Kind != "commit" && op.Kind != "commit-must-succeed") || res.Err != "" || res.Skipped || e.File == nil || e.Cfg.SyncNone {
			return
		}
		if msg := commitK1(m, e); msg != "" {
			e.Fail("k1-commit: %s", msg)
		}
		rep.count("k1:commit-protocol", 1)
	}
}

func commitK1(m *model.Client, e *engine.Engine) string {
	log := e.Disk.LogCopy()
	// the last commit: from the last commit-begin marker to the last commit-ok marker
	begin, end := -1, -1
	for i := len(log) - 1; i >= 0; i-- {
		if log[i].Kind == simdisk.OpMarker && log[i].Tag == "commit-ok" && end < 0 {
			end = i
		}
		if log[i].Kind == simdisk.OpMarker && log[i].Tag == "commit-begin" && end >= 0 {
			begin = i
			break
		}
	}
	if begin < 0 {
		return ""
	}
	s := txfile.VerifSnapshot(e.File)
	ps := int64(s.PageSize)
	// phases: 0 = before the first sync, 1 = between the syncs, 2 = after the second sync
	phase := 0
	pre := map[int64][]byte{} // page -> last bytes written before the first sync (page-chunked)
	var hdrPage int64 = -1
	var hdrBytes []byte
	for i := begin; i < end; i++ {
		d := log[i]
		switch {
		case d.Kind == simdisk.OpSync:
			if d.Failed {
				return "a sync of a commit that returned success failed"
			}
			phase++
		case d.Kind == simdisk.OpWrite:
			if d.Failed {
				return "a write of a commit that returned success failed"
			}
			switch phase {
			case 0:
				off, data := d.Off, d.Data
				for len(data) > 0 {
					n := ps - off%ps
					if int64(len(data)) < n {
						n = int64(len(data))
					}
					pid := off / ps
					if pid < 2 {
						return fmt.Sprintf("header page %d is written before the first sync of the commit", pid)
					}
					pg := pre[pid]
					if pg == nil {
						pg = make([]byte, ps)
					}
					copy(pg[off%ps:], data[:n])
					pre[pid] = pg
					off, data = off+n, data[n:]
				}
			case 1:
				if hdrPage >= 0 {
					return "more than one write between the two syncs of the commit"
				}
				if d.Off%ps != 0 || d.Off/ps > 1 {
					return fmt.Sprintf("the write between the two syncs of the commit goes to offset %d, not to a header page", d.Off)
				}
				hdrPage, hdrBytes = d.Off/ps, d.Data
			default:
				return fmt.Sprintf("page write at offset %d after the second sync of the commit", d.Off)
			}
		}
	}
	if phase != 2 || hdrPage < 0 {
		return fmt.Sprintf("the commit issued %d syncs and %d header writes (expected: page writes, sync, header, sync)", phase, map[bool]int{false: 0, true: 1}[hdrPage >= 0])
	}
	if int(hdrPage) != s.MetaActive {
		return fmt.Sprintf("the commit wrote header page %d, the active header of the process is %d", hdrPage, s.MetaActive)
	}
	// the chains as the header names them, in the order of their links (read from the pages the commit wrote)
	chain := func(root uint64) (ids []uint64, written bool) {
		for id := root; id != 0 && len(ids) < 1<<16; {
			pg, ok := pre[int64(id)]
			if !ok {
				return ids, false
			}
			ids = append(ids, id)
			id = binary.LittleEndian.Uint64(pg[0:8])
		}
		return ids, true
	}
	h := s.Hdr[s.MetaActive]
	idsTok := func(ids []uint64) string {
		t := make([]string, len(ids))
		for i, id := range ids {
			t[i] = fmt.Sprint(id)
		}
		return "[" + strings.Join(t, ",") + "]"
	}
	regTok := func(l []txfile.VerifRegion) string {
		var t []string
		for _, r := range l {
			t = append(t, fmt.Sprint(r.ID), fmt.Sprint(r.Count))
		}
		return "[" + strings.Join(t, ",") + "]"
	}
	var walIds, flIds []uint64
	kv := "[]"
	ml, dl := "[]", "[]"
	if ids, ok := chain(h.Wal); ok && len(ids) > 0 {
		// the mapping was written by this commit: its entries in file order, as a set they are the process' mapping
		walIds = ids
		var flat []string
		seen := map[uint64]uint64{}
		for _, id := range ids {
			pg := pre[int64(id)]
			cnt := int(binary.LittleEndian.Uint32(pg[8:12]))
			for k := 0; k < cnt && 12+14*(k+1) <= len(pg); k++ {
				ent := pg[12+14*k:]
				var kb, vb [8]byte
				copy(kb[:7], ent[0:7])
				copy(vb[:7], ent[7:14])
				key, val := binary.LittleEndian.Uint64(kb[:]), binary.LittleEndian.Uint64(vb[:])
				flat = append(flat, fmt.Sprint(key), fmt.Sprint(val))
				seen[key] = val
			}
		}
		kv = "[" + strings.Join(flat, ",") + "]"
		if len(seen) != len(s.WalMapping) {
			return fmt.Sprintf("the mapping pages of the commit hold %d entries, the process' mapping %d", len(seen), len(s.WalMapping))
		}
		for k2, v2 := range s.WalMapping {
			if seen[k2] != v2 {
				return fmt.Sprintf("the mapping pages of the commit map page %d to %d, the process to %d", k2, seen[k2], v2)
			}
		}
	}
	if ids, ok := chain(h.Freelist); ok && len(ids) > 0 {
		flIds = ids
		ml, dl = regTok(s.MetaFree), regTok(s.DataFree)
	}
	ans := m.Ask(fmt.Sprintf("commitk1 %d %d %s %s %s %s %s %s", ps, hdrPage, idsTok(walIds), kv, idsTok(flIds), ml, dl, model.Hex(hdrBytes)))
	if ans == "err" || strings.HasPrefix(ans, "ERROR") {
		return "the model cannot serialise this commit: " + ans
	}
	f := strings.Fields(ans)
	metaIDs := map[int64]bool{}
	i := 0
	for ; i < len(f) && f[i] == "W"; i += 3 {
		if i+2 >= len(f) {
			return "malformed model answer"
		}
		var id int64
		fmt.Sscan(f[i+1], &id)
		if id < 2 {
			break // the header write
		}
		metaIDs[id] = true
		got, ok := pre[id]
		if !ok {
			return fmt.Sprintf("the model writes meta page %d, the commit did not", id)
		}
		if model.Hex(got) != f[i+2] {
			return fmt.Sprintf("meta page %d: the commit wrote\n  %s\nthe model (free lists / mapping of the process)\n  %s", id, trunc(model.Hex(got), 300), trunc(f[i+2], 300))
		}
	}
	rest := strings.Join(f[i:], " ")
	want := fmt.Sprintf("S W %d %s S C", hdrPage, model.Hex(hdrBytes))
	if rest != want {
		return fmt.Sprintf("after the page writes the model continues with %q, the commit with %q", trunc(rest, 200), trunc(want, 200))
	}
	// the other page writes of the commit are data / overwrite pages: none of them may be one of the process' meta pages
	var others []int64
	for id := range pre {
		if !metaIDs[id] {
			others = append(others, id)
		}
	}
	sort.Slice(others, func(a, b int) bool { return others[a] < others[b] })
	inRegions := func(id int64, l []txfile.VerifRegion) bool {
		for _, r := range l {
			if uint64(id) >= r.ID && uint64(id) < r.ID+uint64(r.Count) {
				return true
			}
		}
		return false
	}
	for _, id := range others {
		if inRegions(id, s.FreelistPages) || inRegions(id, s.WalMetaPages) {
			return fmt.Sprintf("page %d is a free-list / mapping page of the new state, but what the commit wrote there is not what the model serialises", id)
		}
	}
	return ""
}
