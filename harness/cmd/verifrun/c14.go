package main

import (
	"fmt"
	"math/rand"
	"os"
	"strings"

	txfile "github.com/elastic/go-txfile"

	"verifharness/engine"
	"verifharness/gen"
	"verifharness/model"
)

// C14: changing the maximum size on open. prior history x (new max | unbounded, prealloc) x further
// history; map + ownership oracle throughout; read and write transactions right after the open;
// growth makes exactly the additional pages allocatable (capacity probe); after shrinking the file
// never extends beyond max(previous extent, new limit); a later plain open reports the new limit.

func fillOps(r *rand.Rand, n int) []engine.Op {
	var ops []engine.Op
	for i := 0; i < n; i++ {
		ops = append(ops, engine.Op{Kind: "begin", Overflow: r.Intn(2) == 0, WALLimit: uint(1 + r.Intn(3))},
			engine.Op{Kind: "alloc", N: 4 + r.Intn(20)},
			engine.Op{Kind: "setfull", P: r.Intn(1000), Seed: 1 + r.Intn(1000)},
			engine.Op{Kind: "setfull", P: r.Intn(1000), Seed: 1 + r.Intn(1000)},
			engine.Op{Kind: "free", P: r.Intn(1000)},
			engine.Op{Kind: "commit"})
	}
	return ops
}

// probeCapacity counts how many pages can be allocated right now (in a transaction that is rolled back).
func probeCapacity(e *engine.Engine) int {
	if e.Tx != nil || e.File == nil {
		return -1
	}
	tx, err := e.File.Begin()
	if err != nil {
		return -1
	}
	defer tx.Rollback()
	n := 0
	for step := 1 << 12; step >= 1; step /= 2 {
		for {
			if _, err := tx.AllocN(step); err != nil {
				break
			}
			n += step
			if n > 1<<16 {
				return n
			}
		}
	}
	return n
}

// c14Model: the Coq model process (K1: the data end marker after a limit update vs. grow_data_end)
var c14Model *model.Client

func c14Case(rep *Report, cfg engine.Config, prior []engine.Op, re engine.Op, further []engine.Op, hseed int64) {
	ops := append(append(append([]engine.Op(nil), prior...), re), further...)
	var capBefore, capAfter int
	var oldMaxPages, newMaxPages, extentBefore int64
	var livePlusMeta int64
	var extra []string
	var dataEndBefore, metaEndBefore uint64
	setup := func(e *engine.Engine) {
		capBefore, capAfter, oldMaxPages, newMaxPages, extentBefore, livePlusMeta, extra = 0, 0, 0, -1, 0, 0, nil
		e.BeforeOp = func(e *engine.Engine, op engine.Op) {
			if op.Kind == "reopen" && op.Flags != 0 && e.Tx == nil && e.NumReaders() == 0 {
				capBefore = probeCapacity(e)
				s := txfile.VerifSnapshot(e.File)
				oldMaxPages = int64(s.MaxPages)
				extentBefore = e.Disk.MaxExtent
				end := s.DataEnd
				if s.MetaEnd > end {
					end = s.MetaEnd
				}
				livePlusMeta = int64(end)
				dataEndBefore, metaEndBefore = s.DataEnd, s.MetaEnd
			}
		}
		e.AfterOp = func(e *engine.Engine, op engine.Op, res engine.Result) {
			if op.Kind == "reopen" && op.Flags != 0 && !res.Skipped && res.Err == "" && e.File != nil {
				s := txfile.VerifSnapshot(e.File)
				newMaxPages = int64(s.MaxPages)
				// K1: the limit grows or is removed: the committed data end marker is the model's
				if c14Model != nil && oldMaxPages > 0 && (newMaxPages == 0 || newMaxPages > oldMaxPages) {
					mod := c14Model.Ask(fmt.Sprintf("growend %d %d %d %d", oldMaxPages, newMaxPages, dataEndBefore, metaEndBefore))
					if impl := fmt.Sprint(s.DataEnd); impl != mod {
						rep.violate(Violation{Kind: "correspondence", Sig: "grow-data-end",
							Detail: fmt.Sprintf("limit %d -> %d pages with data end %d, meta end %d: data end marker after the update %s, model grow_data_end %s", oldMaxPages, newMaxPages, dataEndBefore, metaEndBefore, impl, mod),
							Replay: histReplay{Config: cfg, Ops: ops, Seed: hseed, Mode: "c14"}})
					}
					rep.count("K1:grow-data-end", 1)
				}
				// usable right away, without blocking
				if !watchdog(5e9, func() {
					tx, err := e.File.BeginReadonly()
					if err == nil {
						tx.Close()
					}
				}) {
					extra = append(extra, "BeginReadonly blocks after an open that changed the maximum size")
					return
				}
				capAfter = probeCapacity(e)
				e.VerifyCommitted("after resize")
				// every page of the meta area is accounted for after the transactions the open ran (D25)
				e.CheckAllocator("after the max-size update")
				if txfile.Flag(op.Flags)&txfile.FlagUnboundMaxSize != 0 && s.MaxPages != 0 {
					extra = append(extra, fmt.Sprintf("opened with FlagUnboundMaxSize (MaxSize option %d): the file is bounded to %d pages", op.MaxSize, s.MaxPages))
				}
				if oldMaxPages > 0 && newMaxPages > oldMaxPages && capBefore >= 0 && capAfter >= 0 && livePlusMeta <= oldMaxPages {
					if capAfter-capBefore != int(newMaxPages-oldMaxPages) {
						extra = append(extra, fmt.Sprintf("growing from %d to %d pages made %d more pages allocatable (capacity %d -> %d)", oldMaxPages, newMaxPages, capAfter-capBefore, capBefore, capAfter))
					}
				}
				if want := uint64(newMaxPages) * uint64(s.PageSize); s.Hdr[s.MetaActive].MaxSize != want {
					extra = append(extra, fmt.Sprintf("header max size %d after resize, expected %d", s.Hdr[s.MetaActive].MaxSize, want))
				}
			}
		}
	}
	post := func(e *engine.Engine) {
		if e.File == nil {
			return
		}
		// shrink: the file never extends beyond max(previous extent, new limit)
		// (a transaction that enables the overflow area is allowed to exceed the limit by design:
		// the bound is checked for histories without such transactions after the resize)
		ovfAfter := false
		seenResize := false
		for _, op := range ops {
			if op.Kind == "reopen" && op.Flags != 0 {
				seenResize = true
			}
			if seenResize && op.Kind == "begin" && op.Overflow {
				ovfAfter = true
			}
		}
		if !ovfAfter && newMaxPages > 0 && (oldMaxPages == 0 || newMaxPages < oldMaxPages) {
			limit := newMaxPages * int64(cfg.PageSize)
			if extentBefore > limit {
				limit = extentBefore
			}
			if e.Disk.MaxExtent > limit {
				extra = append(extra, fmt.Sprintf("after shrinking to %d pages the file grew to %d bytes (previous extent %d)", newMaxPages, e.Disk.MaxExtent, extentBefore))
			}
		}
		// a later plain open reports the new limit
		if e.Tx == nil && e.NumReaders() == 0 && newMaxPages >= 0 {
			before := txfile.VerifSnapshot(e.File).MaxPages
			e.Apply(engine.Op{Kind: "reopen"})
			if e.File != nil {
				if after := txfile.VerifSnapshot(e.File).MaxPages; after != before {
					extra = append(extra, fmt.Sprintf("plain reopen reports max pages %d, expected %d", after, before))
				}
				e.VerifyCommitted("after plain reopen")
			}
		}
		for _, x := range extra {
			e.Fail("%s", x)
		}
	}
	e := runOracleHistory(rep, cfg, ops, hseed, "c14", setup, post)
	if e != nil {
		rep.nontrivial(fmt.Sprintf("%s/%v/%v", cfg, re, e.Stats))
	}
}

func init() {
	register("c14", func(args []string) int {
		f := parseFlags("c14", args)
		rep := newReport("C14", f)
		rep.Rule = "prior history (random, or fill-to-the-limit with overflow-area transactions) x reopen with FlagUpdMaxSize (larger / smaller / unbounded / same, with and without prealloc) x further history; map and ownership oracles throughout, BeginReadonly watchdog, capacity probe before/after growth, extent bound after shrink, plain reopen reports the new limit. Non-trivial: every case (distinct config x resize x op statistics)."
		if f.replay != "" {
			rp, err := loadHistReplay(f.replay)
			if err != nil {
				fmt.Fprintln(os.Stderr, err)
				return 2
			}
			runOracleHistory(rep, rp.Config, rp.Ops, rp.Seed, rp.Mode, nil, nil)
			return rep.finish(f)
		}
		if m, err := model.Start(); err == nil {
			c14Model = m
			defer m.Close()
		} else {
			fmt.Fprintln(os.Stderr, err)
			return 2
		}
		r := rand.New(rand.NewSource(f.seed))
		n := 120
		if f.tier == "thorough" {
			n = 3000
		}
		if f.n > 0 {
			n = f.n
		}
		for i := 0; i < n; i++ {
			if rep.outOfTime() {
				break
			}
			hseed := r.Int63()
			hr := rand.New(rand.NewSource(hseed))
			cfgs := []engine.Config{
				{PageSize: 1024, MaxSize: 64 * 1024}, {PageSize: 1024, MaxSize: 64 * 1024, InitMetaArea: 4},
				{PageSize: 1024, MaxSize: 96 * 1024, InitMetaArea: 2}, {PageSize: 1024, MaxSize: 128 * 1024, Prealloc: true},
				{PageSize: 1024, MaxSize: 0}, {PageSize: 1024, MaxSize: 0, InitMetaArea: 4},
			}
			cfg := cfgs[hr.Intn(len(cfgs))]
			prof := gen.DefaultProfile()
			prof.Readers = false
			var prior []engine.Op
			if hr.Intn(2) == 0 {
				prior = fillOps(hr, 3+hr.Intn(8))
			} else {
				prior = gen.History(hr, prof)
			}
			sizes := []uint64{128 * 1024, 256 * 1024, 64 * 1024, 80 * 1024, 0, cfg.MaxSize, 1 << 20}
			re := engine.Op{Kind: "reopen", Flags: uint64(txfile.FlagUpdMaxSize), MaxSize: sizes[hr.Intn(len(sizes))], Prealloc: hr.Intn(3) == 0}
			if re.MaxSize == 0 {
				re.Flags |= uint64(txfile.FlagUnboundMaxSize)
			} else if hr.Intn(6) == 0 {
				// the flag wins over whatever MaxSize says (also values that would be too small for a bounded file)
				re.Flags |= uint64(txfile.FlagUnboundMaxSize)
				re.MaxSize = []uint64{4096, 16384, 70000, 1 << 20}[hr.Intn(4)]
				rep.count("scenario:unbound-flag-with-a-max-size-option", 1)
			}
			shrunkFurther := 0
			if i%8 == 2 {
				// the end of the file is free: the shrinking open releases those pages in a transaction of its own
				// (which writes a new free list and has to give the pages of the old one back: D25)
				live := 100 + hr.Intn(80)
				cfg = engine.Config{PageSize: 1024, MaxSize: 256 * 1024, InitMetaArea: uint32(4 + hr.Intn(16))}
				prior = []engine.Op{{Kind: "begin"}, {Kind: "alloc", N: live}, {Kind: "setfull", P: 3, Seed: 9}, {Kind: "setroot", P: 3}, {Kind: "commit"}, {Kind: "begin"}}
				for k := 0; k < 30+hr.Intn(40); k++ {
					prior = append(prior, engine.Op{Kind: "free", P: live - 1 - k})
				}
				prior = append(prior, engine.Op{Kind: "commit"})
				re = engine.Op{Kind: "reopen", Flags: uint64(txfile.FlagUpdMaxSize), MaxSize: 64 * 1024, Prealloc: hr.Intn(2) == 0}
				rep.count("scenario:shrink-with-free-pages-at-the-end-of-the-file", 1)
			}
			if i%8 == 6 {
				// shrink below the extent of the file, then raise the limit to a value that is still below the extent
				// (D20, D21): every live page stays readable and writable, with and without preallocation
				live := 110 + hr.Intn(120)
				cfg = engine.Config{PageSize: 1024, MaxSize: []uint64{0, 512 * 1024}[hr.Intn(2)], InitMetaArea: uint32(hr.Intn(2) * 4)}
				prior = []engine.Op{{Kind: "begin"}, {Kind: "alloc", N: live}}
				for k := 0; k < 16; k++ {
					prior = append(prior, engine.Op{Kind: "setfull", P: live - 1 - k*5, Seed: 1 + hr.Intn(1000)})
				}
				prior = append(prior, engine.Op{Kind: "setroot", P: live - 1}, engine.Op{Kind: "commit"},
					engine.Op{Kind: "reopen", Flags: uint64(txfile.FlagUpdMaxSize), MaxSize: 64 * 1024, Prealloc: hr.Intn(2) == 0}, engine.Op{Kind: "verify"})
				if hr.Intn(2) == 0 {
					// overwrite pages / mapping pages behind the data area before the limit is raised
					prior = append(prior, engine.Op{Kind: "begin", Overflow: true, WALLimit: 1000},
						engine.Op{Kind: "setfull", P: hr.Intn(live), Seed: 7}, engine.Op{Kind: "setfull", P: hr.Intn(live), Seed: 8}, engine.Op{Kind: "commit"})
				}
				re = engine.Op{Kind: "reopen", Flags: uint64(txfile.FlagUpdMaxSize), MaxSize: uint64(70+hr.Intn(live-70)) * 1024, Prealloc: hr.Intn(2) == 0}
				rep.count("scenario:shrink-then-grow-to-a-limit-below-the-extent", 1)
			}
			if i%4 == 3 {
				// an unbounded file that already extends beyond the limit it is given now
				cfg = engine.Config{PageSize: 1024, MaxSize: 0, InitMetaArea: uint32(hr.Intn(3) * 4)}
				prior = []engine.Op{{Kind: "begin"}, {Kind: "alloc", N: 70 + hr.Intn(150)}}
				for k := 0; k < 12; k++ {
					prior = append(prior, engine.Op{Kind: "setfull", P: 1000 - k*7, Seed: 1 + hr.Intn(1000)})
				}
				prior = append(prior, engine.Op{Kind: "setroot", P: 1000}, engine.Op{Kind: "commit"})
				re.MaxSize = []uint64{64 * 1024, 80 * 1024, 128 * 1024}[hr.Intn(3)]
				re.Flags = uint64(txfile.FlagUpdMaxSize)
				re.Prealloc = hr.Intn(2) == 0
				rep.count("scenario:bound-an-unbounded-file-that-is-larger", 1)
				if k := (i / 4) % 3; k != 0 {
					// directed: the file extends beyond the new limit and transactions with an overflow area put their
					// overwrite / mapping / free-list pages behind the data area
					shrunkFurther = k
					nPages := int(re.MaxSize/1024) + 1 + hr.Intn(90)
					prior[1].N = nPages - 6
				}
			}
			directed := false
			if i%4 == 1 {
				// a full bounded file whose overwrite / mapping / free-list pages live past the size limit (overflow
				// area); the limit is then raised or removed and new pages are allocated and written
				cfg = engine.Config{PageSize: 1024, MaxSize: uint64(64+hr.Intn(32)) * 1024, InitMetaArea: uint32(hr.Intn(2) * 2)}
				prior = fillAllOps(hr)
				prior = append(prior, engine.Op{Kind: "begin", Overflow: true, WALLimit: 1000})
				for k := 2 + hr.Intn(8); k > 0; k-- {
					prior = append(prior, engine.Op{Kind: "setfull", P: hr.Intn(1 << 16), Seed: 1 + hr.Intn(1000)})
				}
				prior = append(prior, engine.Op{Kind: "commit"})
				re.MaxSize = []uint64{0, 0, 256 * 1024, 1 << 20}[hr.Intn(4)]
				re.Flags = uint64(txfile.FlagUpdMaxSize)
				if re.MaxSize == 0 && hr.Intn(2) == 0 {
					// (a maximum size of 0 with FlagUpdMaxSize alone removes the limit as well)
					re.Flags |= uint64(txfile.FlagUnboundMaxSize)
				}
				re.Prealloc = false
				directed = true
				rep.count("scenario:raise-the-limit-of-a-file-with-an-overflow-area", 1)
			}
			var further []engine.Op
			if shrunkFurther == 1 {
				// D18: the last data page is freed while overflow pages behind it are in use
				further = []engine.Op{{Kind: "begin", Overflow: true, WALLimit: 1},
					{Kind: "setfull", P: hr.Intn(1000), Seed: 1 + hr.Intn(1000)}, {Kind: "setfull", P: hr.Intn(1000), Seed: 1 + hr.Intn(1000)},
					{Kind: "free", P: prior[1].N - 1}, {Kind: "commit"},
					{Kind: "begin", Overflow: true, WALLimit: 3},
					{Kind: "setfull", P: hr.Intn(1000), Seed: 1 + hr.Intn(1000)}, {Kind: "setfull", P: hr.Intn(1000), Seed: 1 + hr.Intn(1000)},
					{Kind: "commit"}, {Kind: "verify"},
					{Kind: "begin", Overflow: true, WALLimit: 2}, {Kind: "free", P: prior[1].N - 2},
					{Kind: "setfull", P: hr.Intn(1000), Seed: 1 + hr.Intn(1000)}, {Kind: "commit"}, {Kind: "verify"},
					{Kind: "reopen"}, {Kind: "verify"}}
				rep.count("scenario:shrunk-file/free-last-page-with-overflow-area", 1)
			} else if shrunkFurther == 2 {
				// D17: fragmented free data pages, overflow area in use, then a transaction without overflow area
				// grows the meta area by a contiguous region
				a, b := 5+hr.Intn(20), 40+hr.Intn(20)
				further = []engine.Op{{Kind: "begin", Overflow: true, WALLimit: 2},
					{Kind: "free", P: a}, {Kind: "free", P: b},
					{Kind: "setfull", P: hr.Intn(1000), Seed: 1 + hr.Intn(1000)}, {Kind: "setfull", P: hr.Intn(1000), Seed: 1 + hr.Intn(1000)},
					{Kind: "setfull", P: hr.Intn(1000), Seed: 1 + hr.Intn(1000)}, {Kind: "commit"},
					{Kind: "begin", WALLimit: 1},
					{Kind: "setfull", P: hr.Intn(1000), Seed: 1 + hr.Intn(1000)}, {Kind: "setfull", P: hr.Intn(1000), Seed: 1 + hr.Intn(1000)},
					{Kind: "flush"}, {Kind: "alloc", N: 1}, {Kind: "setfull", P: hr.Intn(1000), Seed: 1 + hr.Intn(1000)},
					{Kind: "commit"}, {Kind: "verify"}, {Kind: "reopen"}, {Kind: "verify"},
					{Kind: "begin", WALLimit: 1}, {Kind: "setfull", P: hr.Intn(1000), Seed: 1 + hr.Intn(1000)}, {Kind: "commit"}, {Kind: "verify"}}
				rep.count("scenario:shrunk-file/contiguous-meta-growth-next-to-overflow-area", 1)
			} else if directed {
				further = []engine.Op{{Kind: "begin"}, {Kind: "alloc", N: 8 + hr.Intn(16)}}
				for k := 0; k < 12; k++ {
					further = append(further, engine.Op{Kind: "setfull", P: 1<<15 - k*3, Seed: 1 + hr.Intn(1000)})
				}
				further = append(further, engine.Op{Kind: "commit"}, engine.Op{Kind: "verify"}, engine.Op{Kind: "reopen"}, engine.Op{Kind: "verify"})
			} else if hr.Intn(2) == 0 {
				further = fillOps(hr, 2+hr.Intn(6))
			} else {
				further = gen.History(hr, prof)
			}
			c14Case(rep, cfg, prior, re, further, hseed)
			if i < 2 {
				rep.sample(map[string]interface{}{"config": cfg.String(), "resize": re.String(), "prior_ops": len(prior), "further_ops": len(further)})
			}
		}
		// I/O failures while Open lowers the maximum size (the transaction that releases the pages behind the new limit
		// "is allowed to fail"): whatever Open returns, the File it returns must be usable - the allocator of the process
		// is exactly what a fresh Open of the same bytes builds, allocations hand out real pages, later commits
		// succeed (seeded change C14k: the release step edits the live free list in place and fails afterwards).
		// Failures that are I/O containment issues in general (known findings of C08) are not reported here.
		for kind := 0; kind <= 1; kind++ {
			for pos := 0; pos <= 7; pos++ {
				for _, burst := range []int{1, 1000} {
					cfg, ops := shrinkOpenUnderFaults(kind, pos, burst)
					e, hang := c08Run(cfg, ops, false)
					rep.Evaluations++
					rep.count("scenario:faults-while-open-lowers-the-maximum-size", 1)
					if hang != "" || e == nil {
						continue
					}
					for _, msg := range e.Failures {
						sg := failSig(msg)
						if strings.HasPrefix(sg, "failed-commit-attempt-visible-but-incomplete") || strings.HasPrefix(sg, "mapping-lost-after-failed-remap") {
							continue
						}
						rep.violate(Violation{Kind: "oracle", Sig: "shrink-open-under-faults/" + sg,
							Detail: fmt.Sprintf("%s on %s; history: %s", msg, cfg, opKinds(ops)),
							Replay: histReplay{Config: cfg, Ops: ops, Failures: e.Failures, Seed: int64(3000 + kind*100 + pos*10 + burst%7), Mode: "c08"}})
						break
					}
				}
			}
		}
		rep.ModelCalls = c14Model.N
		return rep.finish(f)
	})
}
