package main

import (
	"fmt"
	"math/rand"
	"os"
	"strconv"

	txfile "github.com/elastic/go-txfile"

	"verifharness/engine"
	"verifharness/gen"
	"verifharness/model"
	"verifharness/simdisk"
)

// C11: space conservation on bounded files without overflow transactions. At every quiescent point
//   allocatable + live + metaTotal + 2 == maxPages,
// the capacity probe (allocate until failure, rolled back) equals the allocatable count, committed
// frees raise it by exactly the number of freed pages, the file never extends beyond its maximum
// size, and the FileStats reported through the Observer match.

type statObs struct {
	open  txfile.FileStats
	last  txfile.FileStats
	opens int
}

func (o *statObs) OnOpen(s txfile.FileStats) { o.open, o.last = s, s; o.opens++ }
func (o *statObs) OnTxBegin(bool)            {}
func (o *statObs) OnTxClose(f txfile.FileStats, t txfile.TxStats) {
	if !t.Readonly && t.Commit {
		o.last = f
	}
}

// c11Model answers "maxpages": the page count of a bounded file in the Coq model (max_pages_of, theorem
// max_pages_within_size)
var c11Model *model.Client

func c11MaxPages(maxSize, ps uint64) uint64 {
	if c11Model == nil {
		return maxSize / ps
	}
	v, err := strconv.ParseUint(c11Model.Ask(fmt.Sprintf("maxpages %d %d", maxSize, ps)), 10, 64)
	if err != nil {
		panic("model: maxpages: " + err.Error())
	}
	return v
}

func c11Check(e *engine.Engine, obs *statObs, probe bool) {
	if e.Tx != nil || e.File == nil {
		return
	}
	s := txfile.VerifSnapshot(e.File)
	if s.MaxPages == 0 {
		return
	}
	live := uint64(len(e.Committed.Pages))
	avail := uint64(s.DataAvail)
	if s.DataEnd < uint64(s.MaxPages) {
		avail += uint64(s.MaxPages) - s.DataEnd
	}
	if got := avail + live + uint64(s.MetaTotal) + 2; got != uint64(s.MaxPages) {
		e.Fail("conservation: allocatable %d + live %d + meta area %d + 2 headers = %d, max pages %d (data end %d, meta end %d, data free %v, meta free %v)",
			avail, live, s.MetaTotal, got, s.MaxPages, s.DataEnd, s.MetaEnd, s.DataFree, s.MetaFree)
	}
	if e.Disk.MaxExtent > int64(s.MaxSize) {
		e.Fail("the file grew to %d bytes, maximum size is %d", e.Disk.MaxExtent, s.MaxSize)
	}
	// "the configured maximum" in pages: the complete pages that fit below the maximum size
	if ps, ms := uint64(e.File.PageSize()), uint64(s.MaxSize); uint64(s.MaxPages) != c11MaxPages(ms, ps) {
		e.Fail("max-pages: the allocator counts with %d pages, %d bytes hold %d complete pages of %d bytes (model: max_pages_of)", s.MaxPages, ms, c11MaxPages(ms, ps), ps)
	}
	if obs.last.DataAllocated != uint(live) {
		e.Fail("FileStats.DataAllocated = %d, live pages = %d", obs.last.DataAllocated, live)
	}
	if obs.last.MetaArea != s.MetaTotal {
		e.Fail("FileStats.MetaArea = %d, meta area = %d", obs.last.MetaArea, s.MetaTotal)
	}
	if want := s.MetaTotal - s.MetaAvail; obs.last.MetaAllocated != want {
		e.Fail("FileStats.MetaAllocated = %d, meta pages in use = %d", obs.last.MetaAllocated, want)
	}
	if probe {
		if c := probeCapacity(e); c >= 0 && uint64(c) != avail {
			e.Fail("capacity probe allocated %d pages, allocatable count is %d", c, avail)
		}
	}
}

func c11History(rep *Report, cfg engine.Config, ops []engine.Op, hseed int64) {
	var obs *statObs
	setup := func(e *engine.Engine) {
		n := 0
		e.AfterOp = func(e *engine.Engine, op engine.Op, res engine.Result) {
			switch op.Kind {
			case "commit", "rollback", "close", "reopen":
				n++
				c11Check(e, obs, n%7 == 0)
			}
		}
	}
	// the observer must exist before the file is created
	obs = &statObs{}
	cfg.Observer = obs
	reset := func(e *engine.Engine) { *obs = statObs{}; setup(e) }
	_ = reset
	e := runOracleHistoryFresh(rep, cfg, ops, hseed, "c11", func() engine.Config {
		obs = &statObs{}
		c := cfg
		c.Observer = obs
		return c
	}, setup, func(e *engine.Engine) { c11Check(e, obs, true) })
	if e != nil {
		rep.nontrivial(fmt.Sprintf("%s/%v", cfg, e.Stats))
	}
}

// runOracleHistoryFresh is runOracleHistory with a config factory (fresh observer per run).
func runOracleHistoryFresh(rep *Report, cfg engine.Config, ops []engine.Op, seed int64, mode string, mkcfg func() engine.Config, setup func(*engine.Engine), post func(*engine.Engine)) *engine.Engine {
	run := func(o []engine.Op) *engine.Engine {
		c := mkcfg()
		e, err := engine.New(c)
		if err != nil {
			return nil
		}
		if setup != nil {
			setup(e)
		}
		// the creation itself reports stats
		for _, op := range o {
			e.Apply(op)
		}
		if e.Tx != nil {
			e.Apply(engine.Op{Kind: "rollback"})
		}
		e.Apply(engine.Op{Kind: "rcloseall"})
		if post != nil {
			post(e)
		}
		e.Close()
		return e
	}
	e := run(ops)
	rep.Evaluations++
	if e == nil {
		return nil
	}
	rep.Traces++
	for k, v := range e.Stats {
		rep.count("op:"+k, v)
	}
	if len(e.Failures) == 0 {
		return e
	}
	sig := failSig(e.Failures[0])
	min := ops
	if !rep.distinct["viol/"+sig] {
		min = engine.Shrink(ops, func(c []engine.Op) bool {
			e2 := run(c)
			return e2 != nil && len(e2.Failures) > 0 && failSig(e2.Failures[0]) == sig
		})
	}
	e3 := run(min)
	if e3 == nil || len(e3.Failures) == 0 {
		e3, min = e, ops
	}
	rep.violate(Violation{Kind: "oracle", Sig: sig,
		Detail: fmt.Sprintf("%s on %s; minimal history: %s", e3.Failures[0], cfg, opKinds(min)),
		Replay: histReplay{Config: cfg, Ops: min, Failures: e3.Failures, Log: e3.Log, Seed: seed, Mode: mode}})
	return e
}

func init() {
	register("c11", func(args []string) int {
		f := parseFlags("c11", args)
		rep := newReport("C11", f)
		rep.Rule = "long alloc/free/overwrite cycle histories (no overflow transactions) on bounded configurations (64-256 pages, meta area 0/1/4/8, prealloc); plus short abort-heavy histories (50% of the transactions end in Rollback/Close); after every commit / rollback / close / reopen: allocatable + live + meta area + 2 == max pages, file extent <= max size, Observer FileStats == (live, meta area, meta in use); every 7th point and at the end a capacity probe (allocate until failure in a rolled-back transaction) must equal the allocatable count. directed: meta-area growth served by a contiguous run of the data free list; the configuration space at creation (explicit / default page size x max size x initial meta area: refused, or within the limit and conserving); K1: allocator scripts (state incl. the per-transaction counters after every operation) vs. the Coq model. Non-trivial: distinct (config, op statistics)."
		m, err := model.Start()
		if err != nil {
			fmt.Fprintln(os.Stderr, err)
			return 2
		}
		defer m.Close()
		c11Model = m
		if f.replay != "" {
			rp, err := loadHistReplay(f.replay)
			if err != nil {
				fmt.Fprintln(os.Stderr, err)
				return 2
			}
			c11History(rep, rp.Config, rp.Ops, rp.Seed)
			return rep.finish(f)
		}
		r := rand.New(rand.NewSource(f.seed))
		n, ntx := 100, 60
		if f.tier == "thorough" {
			n, ntx = 1500, 400
		}
		if f.n > 0 {
			n = f.n
		}
		cfgs := []engine.Config{
			{PageSize: 1024, MaxSize: 64 * 1024}, {PageSize: 1024, MaxSize: 64 * 1024, InitMetaArea: 4},
			{PageSize: 1024, MaxSize: 128 * 1024, InitMetaArea: 8}, {PageSize: 1024, MaxSize: 256 * 1024, InitMetaArea: 1},
			{PageSize: 1024, MaxSize: 96 * 1024, Prealloc: true}, {PageSize: 4096, MaxSize: 256 * 1024, InitMetaArea: 2},
			// a maximum size that is no multiple of the page size: the last, incomplete page is not available
			{PageSize: 1024, MaxSize: 64*1024 + 512}, {PageSize: 1024, MaxSize: 100000, InitMetaArea: 2}, {PageSize: 4096, MaxSize: 256*1024 + 4095},
		}
		for i := 0; i < n; i++ {
			if rep.outOfTime() {
				break
			}
			hseed := r.Int63()
			hr := rand.New(rand.NewSource(hseed))
			cfg := cfgs[hr.Intn(len(cfgs))]
			prof := gen.DefaultProfile()
			prof.Overflow = false
			prof.Readers = false
			prof.MaxTx = ntx
			prof.MaxAlloc = 10
			ops := gen.History(hr, prof)
			c11History(rep, cfg, ops, hseed)
			if i < 2 {
				rep.sample(map[string]interface{}{"config": cfg.String(), "ops": len(ops)})
			}
		}
		// part 2: short histories on files that are not full, half of the transactions end in Rollback / Close
		// (pages allocated, freed and allocated again inside a transaction that does not commit)
		for i := 0; i < 4*n; i++ {
			if rep.outOfTime() {
				break
			}
			hseed := r.Int63()
			hr := rand.New(rand.NewSource(hseed))
			cfg := cfgs[hr.Intn(len(cfgs))]
			prof := gen.DefaultProfile()
			prof.Overflow = false
			prof.Readers = false
			prof.MaxTx = 8
			prof.AbortPct = 50
			prof.MaxBody = 12
			ops := gen.History(hr, prof)
			rep.count("part2:abort-heavy-histories", 1)
			c11History(rep, cfg, ops, hseed)
		}
		// part 3 (directed): a run of adjacent pages is freed, then overwrites make the meta area grow: the growth is
		// served by one contiguous region of the data free list (the third route of tryGrow besides scattered
		// regions and the file end); the counters reported to the Observer must follow
		for i := 0; i < 24; i++ {
			cfg := cfgs[i%len(cfgs)]
			run := []int{2, 4, 8, 16, 5, 12}[i%6]
			ops := []engine.Op{{Kind: "begin"}, {Kind: "alloc", N: 24 + run}}
			for k := 0; k < 24+run; k++ {
				ops = append(ops, engine.Op{Kind: "setfull", P: k, Seed: 100 + k})
			}
			ops = append(ops, engine.Op{Kind: "commit"}, engine.Op{Kind: "begin"})
			for k := 0; k < run; k++ {
				ops = append(ops, engine.Op{Kind: "free", P: 6 + i%5}) // the same index: adjacent pages
			}
			ops = append(ops, engine.Op{Kind: "commit"})
			// overwrites of existing pages need overwrite pages: 1, 2, 4, ... per transaction
			for k := 1; k <= 16; k *= 2 {
				ops = append(ops, engine.Op{Kind: "begin", WALLimit: 1000})
				for j := 0; j < k; j++ {
					ops = append(ops, engine.Op{Kind: "setfull", P: j, Seed: 200 + k + j})
				}
				ops = append(ops, engine.Op{Kind: "commit"})
			}
			ops = append(ops, engine.Op{Kind: "reopen"}, engine.Op{Kind: "verify"})
			rep.count("part3:meta-growth-from-a-contiguous-free-run", 1)
			c11History(rep, cfg, ops, int64(3000+i))
		}
		// part 4: the configuration space at creation: page size (explicit / default) x max size x initial meta area -
		// a configuration is refused, or the new file lies within its limit and the conservation identity holds
		for _, ps := range []uint32{0, 1024, 4096} {
			eff := uint64(ps)
			if eff == 0 {
				eff = uint64(os.Getpagesize())
			}
			for _, mp := range []uint64{16, 20, 64, 66, 100} {
				for mi, meta := range []uint32{0, 1, 4, 14, 18, 62, 64, 98, 200} {
					d := simdisk.New("cfg")
					// (every other configuration with a maximum size that ends inside a page)
					extra := []uint64{0, 1, eff / 2, eff - 1}[(mi+int(mp))%4]
					fl, err := txfile.VerifOpen(d, txfile.Options{PageSize: ps, MaxSize: mp*eff + extra, InitMetaArea: meta})
					rep.Evaluations++
					rep.count(fmt.Sprintf("part4:create:ok=%v", err == nil), 1)
					if err != nil {
						continue
					}
					sn := txfile.VerifSnapshot(fl)
					end := sn.DataEnd
					if sn.MetaEnd > end {
						end = sn.MetaEnd
					}
					avail := uint64(sn.DataAvail)
					if sn.DataEnd < uint64(sn.MaxPages) {
						avail += uint64(sn.MaxPages) - sn.DataEnd
					}
					switch {
					case uint64(sn.MaxPages) != c11MaxPages(mp*eff+extra, eff):
						rep.violate(Violation{Kind: "oracle", Sig: "create/max-pages",
							Detail: fmt.Sprintf("Options{PageSize: %d, MaxSize: %d pages + %d bytes, InitMetaArea: %d}: the allocator counts with %d pages", ps, mp, extra, meta, sn.MaxPages),
							Replay: map[string]interface{}{"page_size": ps, "max_pages": mp, "extra_bytes": extra, "init_meta_area": meta}})
					case end > uint64(sn.MaxPages) || d.MaxExtent > int64(sn.MaxSize):
						rep.violate(Violation{Kind: "oracle", Sig: "create/beyond-max-size",
							Detail: fmt.Sprintf("Options{PageSize: %d, MaxSize: %d pages, InitMetaArea: %d} is accepted and creates a file whose end markers (data %d, meta %d) lie beyond its %d pages", ps, mp, meta, sn.DataEnd, sn.MetaEnd, sn.MaxPages),
							Replay: map[string]interface{}{"page_size": ps, "max_pages": mp, "init_meta_area": meta}})
					case avail+uint64(sn.MetaTotal)+2 != uint64(sn.MaxPages):
						rep.violate(Violation{Kind: "oracle", Sig: "create/conservation",
							Detail: fmt.Sprintf("Options{PageSize: %d, MaxSize: %d pages, InitMetaArea: %d}: allocatable %d + meta area %d + 2 != %d", ps, mp, meta, avail, sn.MetaTotal, sn.MaxPages),
							Replay: map[string]interface{}{"page_size": ps, "max_pages": mp, "init_meta_area": meta}})
					}
					fl.Close()
				}
			}
		}
		// part 5: a bounded file filled to its last page (no spare meta page): a transaction that only frees pages
		// has to commit - "freeing pages makes exactly that many allocatable again, alloc/free cycles can continue forever"
		for _, c := range []struct {
			ps   uint32
			max  uint64
			meta uint32
		}{{1024, 64 * 1024, 0}, {1024, 64 * 1024, 4}, {4096, 256 * 1024, 0}} {
			d := simdisk.New("full")
			fl, err := txfile.VerifOpen(d, txfile.Options{PageSize: c.ps, MaxSize: c.max, InitMetaArea: c.meta})
			if err != nil {
				continue
			}
			rep.Evaluations++
			func() {
				defer fl.Close()
				tx, _ := fl.Begin()
				var ids []txfile.PageID
				for step := 64; step >= 1; step /= 2 {
					for {
						pages, err := tx.AllocN(step)
						if err != nil {
							break
						}
						for _, p := range pages {
							ids = append(ids, p.ID())
						}
					}
				}
				if err := tx.Commit(); err != nil || len(ids) < 4 {
					return
				}
				rep.count("part5:full-file-free-only-commit", 1)
				tx, _ = fl.Begin()
				for _, id := range ids[:3] {
					if p, err := tx.Page(id); err == nil {
						p.Free()
					}
				}
				if err := tx.Commit(); err != nil {
					rep.violate(Violation{Kind: "oracle", Sig: "full-file/free-only-commit-fails",
						Detail: fmt.Sprintf("file of %d pages of %d bytes (initial meta area %d) filled to the last page: a transaction that only frees 3 pages can not commit: %v", c.max/uint64(c.ps), c.ps, c.meta, err),
						Replay: map[string]interface{}{"scenario": "full-file-free-only", "page_size": c.ps, "max_size": c.max, "init_meta_area": c.meta}})
				}
			}()
		}
		// K1: the per-transaction counters (data / meta / overflow pages allocated and freed, pages moved to the meta
		// area) are part of the allocator state compared with the Coq model after every operation
		k := 150
		if f.tier == "thorough" {
			k = 4000
		}
		for i := 0; i < k; i++ {
			allocScript(rep, m, r)
			rep.count("alloc:scripts", 1)
		}
		// ... and how the free lists are stored: what is written must be what a reopen reads (region codec incl. the
		// counts around 255, free-list operations)
		freelistCases(rep, m, r, k)
		codecCases(rep, m, r, 4*k)
		// directed: free runs of 253..257 adjacent pages (the boundary of the compact region encoding), alone and followed
		// by further free regions, then reopen: the conservation identity must hold with the same numbers as before;
		// and new files whose initial meta area is one region of 255 free pages
		for run := 253; run <= 257; run++ {
			for v := 0; v < 2; v++ {
				cfg := engine.Config{PageSize: 1024, MaxSize: 1024 * 1024, InitMetaArea: 4}
				ops := []engine.Op{{Kind: "begin"}, {Kind: "alloc", N: 300}, {Kind: "commit"}, {Kind: "begin"}}
				for i := 0; i < run; i++ {
					ops = append(ops, engine.Op{Kind: "free", P: 10}) // always the 10th remaining page: a contiguous run
				}
				if v == 1 {
					ops = append(ops, engine.Op{Kind: "free", P: 2}, engine.Op{Kind: "free", P: 4})
				}
				ops = append(ops, engine.Op{Kind: "commit"}, engine.Op{Kind: "reopen"},
					engine.Op{Kind: "begin"}, engine.Op{Kind: "alloc", N: 20}, engine.Op{Kind: "commit"}, engine.Op{Kind: "reopen"})
				c11History(rep, cfg, ops, int64(5000+run*2+v))
				rep.count("scenario:free-run-at-the-region-encoding-boundary", 1)
			}
		}
		for _, meta := range []uint32{255, 256, 257} {
			cfg := engine.Config{PageSize: 1024, MaxSize: 1024 * 1024, InitMetaArea: meta}
			ops := []engine.Op{{Kind: "reopen"}, {Kind: "begin"}, {Kind: "alloc", N: 5}, {Kind: "setfull", P: 0, Seed: 3}, {Kind: "commit"},
				{Kind: "begin", WALLimit: 1000}, {Kind: "setfull", P: 0, Seed: 4}, {Kind: "commit"}, {Kind: "reopen"}}
			c11History(rep, cfg, ops, int64(5100+int(meta)))
			rep.count("scenario:initial-meta-area-at-the-region-encoding-boundary", 1)
		}
		rep.ModelCalls = m.N
		return rep.finish(f)
	})
}
