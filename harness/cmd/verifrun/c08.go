package main

import (
	"fmt"
	"math/rand"
	"os"
	"strings"
	"time"

	txfile "github.com/elastic/go-txfile"

	"verifharness/engine"
	"verifharness/gen"
	"verifharness/simdisk"
)

// C08: I/O failures are contained. Histories with injected faults (write: error before effect / short
// write then error; sync; truncate; mmap; size; bursts of 1..4 consecutive failures) at random
// positions. Oracle: no operation panics or hangs; the in-process committed view is the last
// successfully committed state (map oracle, readers); after the failures stop the next commit
// succeeds; after a reopen the file shows the last committed state or - completely - the state of the
// commit attempt that failed; ownership oracle as always.

func faultHistory(r *rand.Rand) ([]engine.Op, string) {
	prof := gen.DefaultProfile()
	prof.Readers = false
	prof.Reopen = false
	prof.MaxTx = 6
	ops := gen.History(r, prof)
	// insert 1..3 fault directives right before random commits / flushes / anywhere
	nf := 1 + r.Intn(3)
	kinds := ""
	for i := 0; i < nf; i++ {
		pos := r.Intn(len(ops) + 1)
		k := r.Intn(6)
		// mmap/truncate/size only happen at particular points: place them before a commit
		f := engine.Op{Kind: "fault", P: k, N: r.Intn(4), Len: 1 + r.Intn(3)}
		if r.Intn(2) == 0 {
			for j := pos; j < len(ops); j++ {
				if ops[j].Kind == "commit" {
					pos = j
					break
				}
			}
		}
		ops = append(ops[:pos], append([]engine.Op{f}, ops[pos:]...)...)
		kinds += f.String() + " "
	}
	// afterwards: no more faults; sometimes the file is reopened right away (a commit attempt whose
	// final sync failed may then be found committed), sometimes after an aborted transaction that
	// flushed pages, sometimes never before further commits
	if r.Intn(2) == 0 {
		// let the background writer execute what is scheduled while the faults are still armed
		ops = append(ops, engine.Op{Kind: "drain"})
	}
	ops = append(ops, engine.Op{Kind: "nofault"})
	switch r.Intn(4) {
	case 0:
		ops = append(ops, engine.Op{Kind: "rollback"}, engine.Op{Kind: "reopen"}, engine.Op{Kind: "verify"})
	case 1:
		ops = append(ops, engine.Op{Kind: "rollback"}, engine.Op{Kind: "begin"}, engine.Op{Kind: "alloc", N: 3 + r.Intn(6)},
			engine.Op{Kind: "setfull", P: r.Intn(100), Seed: 71}, engine.Op{Kind: "setfull", P: r.Intn(100), Seed: 72}, engine.Op{Kind: "setfull", P: r.Intn(100), Seed: 73},
			engine.Op{Kind: "flush"}, engine.Op{Kind: "rollback"}, engine.Op{Kind: "reopen"}, engine.Op{Kind: "verify"})
	}
	ops = append(ops,
		engine.Op{Kind: "begin"}, engine.Op{Kind: "alloc", N: 2}, engine.Op{Kind: "setfull", P: 0, Seed: 41}, engine.Op{Kind: "commit-must-succeed"},
		engine.Op{Kind: "verify"}, engine.Op{Kind: "reopen"}, engine.Op{Kind: "verify"},
		engine.Op{Kind: "begin"}, engine.Op{Kind: "alloc", N: 1}, engine.Op{Kind: "setfull", P: 1, Seed: 42}, engine.Op{Kind: "commit-must-succeed"}, engine.Op{Kind: "verify"})
	return ops, kinds
}

// c08Run executes a fault history under a hang watchdog.
func c08Run(cfg engine.Config, ops []engine.Op, big bool) (e *engine.Engine, hang string) {
	done := make(chan struct{})
	var eng *engine.Engine
	cur := ""
	go func() {
		defer close(done)
		var err error
		eng, err = engine.New(cfg)
		if err != nil {
			return
		}
		beginAt := 0 // length of the disk log when the open write transaction began
		for _, op := range ops {
			cur = op.String()
			switch op.Kind {
			case "nofault":
				eng.Disk.Fault = nil
			case "begin":
				had := eng.Tx != nil
				eng.Apply(op)
				if !had && eng.Tx != nil {
					beginAt = eng.Disk.LogLen()
				}
			case "commit", "commit-must-succeed":
				if eng.Tx == nil {
					if op.Kind == "commit" {
						eng.Apply(op)
					}
					continue
				}
				res := eng.Apply(engine.Op{Kind: "commit"})
				if res.Err != "" && res.Err != "oom" && !strings.Contains(res.Err, "PANIC") {
					// a Commit may only fail because of an I/O call that failed while this transaction was open
					failed := false
					for _, d := range eng.Disk.LogCopy()[beginAt:] {
						if d.Failed {
							failed = true
						}
					}
					// out of space reported without the OutOfMemory kind (the kind of the cause is not always kept)
					nospace := strings.Contains(eng.LastErrText, "not enough space") || strings.Contains(eng.LastErrText, "out of memory") ||
						strings.Contains(eng.LastErrText, "failed to flush dirty pages") // flushPages only fails when no overwrite page can be allocated; the cause is not attached
					if !failed && nospace {
						continue
					}
					if !failed {
						eng.Fail("spurious-commit-failure: Commit fails (%s: %s) although no I/O call failed since the transaction began", res.Err, trunc(eng.LastErrText, 300))
					} else if op.Kind == "commit-must-succeed" {
						eng.Fail("after the I/O failures stopped a commit still fails: %s", res.Err)
					}
				}
			default:
				eng.Apply(op)
			}
		}
		if eng.Tx != nil {
			eng.Apply(engine.Op{Kind: "rollback"})
		}
		eng.Apply(engine.Op{Kind: "rcloseall"})
		eng.Close()
	}()
	select {
	case <-done:
		return eng, ""
	case <-time.After(20 * time.Second):
		st := ""
		if eng != nil && eng.File != nil {
			s, p, rs := txfile.VerifLockState(eng.File)
			st = fmt.Sprintf(" lock=(%s)", lkString(s, p, rs))
		}
		return eng, "operation does not return: " + cur + st
	}
}

func c08Case(rep *Report, cfg engine.Config, ops []engine.Op, hseed int64, kinds string) {
	run := func(o []engine.Op) (*engine.Engine, string) { return c08Run(cfg, o, false) }
	e, hang := run(ops)
	rep.Evaluations++
	rep.Traces++
	if e != nil {
		for k, v := range e.Stats {
			if strings.HasPrefix(k, "err:") || k == "reopen-shows-failed-attempt" || k == "fault" {
				rep.count(k, v)
			}
		}
		// which disk calls actually failed
		for _, op := range e.Disk.LogCopy() {
			if op.Failed {
				rep.count("failed-disk-call:"+op.Kind.String(), 1)
			}
		}
	}
	// sticky error (theorem C08_sticky_error_no_disk_calls): after the first failed write / sync of a
	// commit no further write or sync call may reach the disk until that Commit has returned
	if e != nil {
		inCommit, failed := false, false
		for i, op := range e.Disk.LogCopy() {
			switch {
			case op.Kind == simdisk.OpMarker && op.Tag == "commit-begin":
				inCommit, failed = true, false
			case op.Kind == simdisk.OpMarker && (op.Tag == "commit-ok" || op.Tag == "commit-fail"):
				inCommit = false
			case inCommit && (op.Kind == simdisk.OpWrite || op.Kind == simdisk.OpSync):
				if failed {
					e.Fail("writer-error-not-sticky: disk call #%d (%v) was issued after an earlier write/sync of the same commit had failed", i, op.Kind)
				}
				if op.Failed {
					failed = true
				}
			}
		}
	}
	var first string
	if hang != "" {
		first = hang
	} else if e != nil && len(e.Failures) > 0 {
		first = e.Failures[0]
	}
	rep.nontrivial(fmt.Sprintf("%s/%s/%d", cfg, kinds, hseed%1000))
	if first == "" {
		return
	}
	sig := "fault/" + failSig(first)
	min := ops
	if hang == "" && !rep.distinct["viol/"+sig] {
		nofaults := func(o []engine.Op) (n int) {
			for _, op := range o {
				if op.Kind == "nofault" {
					n++
				}
			}
			return n
		}
		min = engine.Shrink(ops, func(c []engine.Op) bool {
			if nofaults(c) != nofaults(ops) {
				return false // the end of the fault phase is part of the scenario
			}
			e2, h2 := run(c)
			return h2 == "" && e2 != nil && len(e2.Failures) > 0 && "fault/"+failSig(e2.Failures[0]) == sig
		})
	}
	var fails []string
	if e2, _ := run(min); e2 != nil && len(e2.Failures) > 0 {
		fails = e2.Failures
		first = fails[0]
	}
	rep.violate(Violation{Kind: "oracle", Sig: sig,
		Detail: fmt.Sprintf("%s on %s; minimal history: %s", first, cfg, opKinds(min)),
		Replay: histReplay{Config: cfg, Ops: min, Failures: fails, Seed: hseed, Mode: "c08"}})
}

// shrinkOpenUnderFaults: a file whose last 110 pages are one free region up to the end marker is opened with a lower
// maximum size while the kind-th sort of I/O call fails from its pos-th call on (burst calls).
func shrinkOpenUnderFaults(kind, pos, burst int) (engine.Config, []engine.Op) {
	var ops []engine.Op
	ops = append(ops, engine.Op{Kind: "begin"}, engine.Op{Kind: "alloc", N: 150})
	for k := 0; k < 6; k++ {
		ops = append(ops, engine.Op{Kind: "setfull", P: k, Seed: 30 + k})
	}
	ops = append(ops, engine.Op{Kind: "commit"}, engine.Op{Kind: "begin"})
	for k := 0; k < 110; k++ {
		ops = append(ops, engine.Op{Kind: "free", P: 40}) // the last 110 pages: one free region up to the end marker
	}
	ops = append(ops, engine.Op{Kind: "commit"}, engine.Op{Kind: "verify"},
		engine.Op{Kind: "fault", P: kind, N: pos, Len: burst},
		engine.Op{Kind: "reopen-under-faults", Flags: uint64(txfile.FlagUpdMaxSize), MaxSize: uint64(64+4*(pos%4)) * 1024},
		engine.Op{Kind: "nofault"}, engine.Op{Kind: "verify"},
		engine.Op{Kind: "begin"}, engine.Op{Kind: "alloc", N: 3}, engine.Op{Kind: "setfull", P: 7, Seed: 91}, engine.Op{Kind: "commit-must-succeed"}, engine.Op{Kind: "verify"},
		engine.Op{Kind: "reopen"}, engine.Op{Kind: "verify"},
		engine.Op{Kind: "begin"}, engine.Op{Kind: "free", P: 1}, engine.Op{Kind: "alloc", N: 1}, engine.Op{Kind: "commit-must-succeed"}, engine.Op{Kind: "verify"})
	cfg := engine.Config{PageSize: 1024, MaxSize: 256 * 1024, InitMetaArea: uint32(4 + 4*(pos%2))} // (meta area in front: the free region reaches the end marker)
	return cfg, ops
}

func init() {
	register("c08", func(args []string) int {
		f := parseFlags("c08", args)
		rep := newReport("C08", f)
		rep.Rule = "fault-position sweep (a commit fails at its k-th page write, with and without partial effect, or at its first / second sync, after 1 or 2 prior commits, once or twice in a row; the next commit must succeed and survive a reopen); I/O failures at every position while Open lowers the maximum size (process state == a fresh open of the same file); random histories with 1-3 injected fault directives (kind in {write error before effect, short write then error, sync, truncate, mmap, size}, the N-th next call of that kind, burst length 1-3), half of them placed right before a commit; after the faults a fault-free tail (two transactions that must commit, verify, reopen, verify). Oracle: no panic, no hang (20 s watchdog + lock state), a Commit fails only if an I/O call failed while its transaction was open, map/ownership oracles in process, a reopen shows the last committed state or completely the state of the failed attempt. Non-trivial: distinct (config, fault plan)."
		if f.replay != "" {
			rp, err := loadHistReplay(f.replay)
			if err != nil {
				fmt.Fprintln(os.Stderr, err)
				return 2
			}
			c08Case(rep, rp.Config, rp.Ops, rp.Seed, "replay")
			return rep.finish(f)
		}
		r := rand.New(rand.NewSource(f.seed))
		n := 250
		if f.tier == "thorough" {
			n = 6000
		}
		if f.n > 0 {
			n = f.n
		}
		// fixed scenarios of the two known findings (always executed)
		c08Case(rep, engine.Config{PageSize: 1024, MaxSize: 128 * 1024, InitMetaArea: 8},
			[]engine.Op{{Kind: "begin", WALLimit: 2}, {Kind: "alloc", N: 4}, {Kind: "fault", P: 1, N: 1, Len: 2}, {Kind: "commit"}, {Kind: "nofault"}, {Kind: "reopen"}, {Kind: "verify"}},
			101, "F2 final sync of a commit fails, then reopen")
		c08Case(rep, engine.Config{PageSize: 1024, MaxSize: 0},
			[]engine.Op{{Kind: "begin"}, {Kind: "alloc", N: 100}, {Kind: "fault", P: 3, N: 0, Len: 1}, {Kind: "commit"}, {Kind: "nofault"}, {Kind: "verify"}},
			102, "F3 mmap fails while the commit remaps a grown file")
		// D16 (fixed): a flushed page write of a transaction that is rolled back fails; the next transaction commits
		for _, end := range []string{"rollback", "close"} {
			c08Case(rep, engine.Config{PageSize: 1024, MaxSize: 0},
				[]engine.Op{{Kind: "begin"}, {Kind: "alloc", N: 2}, {Kind: "setfull", P: 0, Seed: 5}, {Kind: "commit"},
					{Kind: "begin"}, {Kind: "alloc", N: 2}, {Kind: "setfull", P: 2, Seed: 6}, {Kind: "fault", P: 0, N: 0, Len: 1}, {Kind: "flush"}, {Kind: "drain"}, {Kind: end},
					{Kind: "nofault"}, {Kind: "begin"}, {Kind: "alloc", N: 1}, {Kind: "setfull", P: 2, Seed: 7}, {Kind: "commit-must-succeed"}, {Kind: "verify"}},
				103, "D16 failed flush of a transaction that ends in "+end)
		}
		// fault-position sweep: after 1 / 2 prior commits (both header slots) a commit fails at its k-th page write
		// (error before effect / short write) or at its first / second sync; once or twice in a row; then, without a
		// reopen in between, the next commit must succeed and be what the process and a reopened file show
		for prior := 1; prior <= 2; prior++ {
			for _, fk := range []struct{ kind, max int }{{0, 7}, {5, 7}, {1, 1}} {
				for pos := 0; pos <= fk.max; pos++ {
					for rep2 := 1; rep2 <= 2; rep2++ {
						var ops []engine.Op
						for k := 0; k < prior; k++ {
							ops = append(ops, engine.Op{Kind: "begin"}, engine.Op{Kind: "alloc", N: 2}, engine.Op{Kind: "setfull", P: 2 * k, Seed: 60 + k}, engine.Op{Kind: "setfull", P: 2*k + 1, Seed: 70 + k}, engine.Op{Kind: "commit"})
						}
						for k := 0; k < rep2; k++ {
							ops = append(ops, engine.Op{Kind: "begin", WALLimit: 2}, engine.Op{Kind: "alloc", N: 1}, engine.Op{Kind: "setfull", P: 0, Seed: 80 + k}, engine.Op{Kind: "setfull", P: 2, Seed: 90 + k},
								engine.Op{Kind: "fault", P: fk.kind, N: pos, Len: 1}, engine.Op{Kind: "commit"}, engine.Op{Kind: "nofault"}, engine.Op{Kind: "rollback"})
						}
						ops = append(ops, engine.Op{Kind: "verify"},
							engine.Op{Kind: "begin", WALLimit: 2}, engine.Op{Kind: "alloc", N: 1}, engine.Op{Kind: "setfull", P: 1, Seed: 99}, engine.Op{Kind: "commit-must-succeed"}, engine.Op{Kind: "verify"},
							engine.Op{Kind: "reopen"}, engine.Op{Kind: "verify"},
							engine.Op{Kind: "begin"}, engine.Op{Kind: "alloc", N: 1}, engine.Op{Kind: "setfull", P: 3, Seed: 98}, engine.Op{Kind: "commit-must-succeed"}, engine.Op{Kind: "verify"}, engine.Op{Kind: "reopen"}, engine.Op{Kind: "verify"})
						cfg := engine.Config{PageSize: 1024, MaxSize: []uint64{0, 128 * 1024}[pos%2], InitMetaArea: uint32(4 * (prior % 2))}
						c08Case(rep, cfg, ops, int64(1000+prior*100+fk.kind*10+pos), fmt.Sprintf("sweep prior=%d kind=%d pos=%d x%d", prior, fk.kind, pos, rep2))
						rep.count("scenario:fault-position-sweep", 1)
					}
				}
			}
		}
		// I/O failures while Open lowers the maximum size of a file (FlagUpdMaxSize): the transaction that stores the
		// new limit and the one that releases the pages behind it (which "is allowed to fail") - at every position of
		// the first failing write / sync, single failures and bursts. Open reports an error or succeeds; either way
		// the process works with exactly what is on disk (process-vs-disk oracle of the engine: allocator state and
		// mapping equal to those of a fresh Open), the next commits succeed, a reopen shows them.
		for kind := 0; kind <= 1; kind++ {
			for pos := 0; pos <= 7; pos++ {
				for _, burst := range []int{1, 3, 1000} {
					cfg, ops := shrinkOpenUnderFaults(kind, pos, burst)
					c08Case(rep, cfg, ops, int64(3000+kind*100+pos*10+burst%7), fmt.Sprintf("shrink-open kind=%d pos=%d burst=%d", kind, pos, burst))
					rep.count("scenario:faults-while-open-lowers-the-maximum-size", 1)
				}
			}
		}
		for i := 0; i < n; i++ {
			if rep.outOfTime() {
				break
			}
			hseed := r.Int63()
			hr := rand.New(rand.NewSource(hseed))
			cfg := gen.PickConfig(hr)
			if i%4 == 3 {
				cfg.SyncNone = true // no fsync at all: the error handling of the writer must not depend on it
				rep.count("config:sync-none", 1)
			}
			ops, kinds := faultHistory(hr)
			c08Case(rep, cfg, ops, hseed, kinds)
			if i < 2 {
				rep.sample(map[string]interface{}{"config": cfg.String(), "faults": kinds, "ops": trunc(opKinds(ops), 500)})
			}
		}
		return rep.finish(f)
	})
}

var _ = simdisk.OpWrite
