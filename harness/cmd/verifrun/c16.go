package main

import (
	"bytes"
	"encoding/binary"
	"encoding/json"
	"fmt"
	"math/rand"
	"os"
	"time"

	txfile "github.com/elastic/go-txfile"

	"verifharness/engine"
	"verifharness/gen"
	"verifharness/model"
	"verifharness/simdisk"
)

// C16: a damaged header never wins.
//
//  A. correspondence K1: readValidMeta / Validate / checksum of the
//     implementation against the extracted Coq model on crafted slot pairs.
//  B. direct oracle: real files produced by histories, header pages damaged
//     (all single bit flips, all byte-prefix tears, zeroes, garbage, copies,
//     both damaged), reopened through the normal open path; the recovered
//     state must be the one the intact header describes; every case is also
//     fed to the model (readmeta_win).

type c16Replay struct {
	Config   engine.Config `json:"config"`
	Ops      []engine.Op   `json:"ops,omitempty"`
	Damage   string        `json:"damage"`
	Image    string        `json:"image_hex,omitempty"` // header pages for K1 cases
	Expect   string        `json:"expect"`
	Actual   string        `json:"actual"`
	HistSeed int64         `json:"hist_seed,omitempty"`
}

func init() { register("c16", runC16) }

func randHeader(r *rand.Rand, pageSize uint32) []byte {
	b := make([]byte, 84)
	le := binary.LittleEndian
	le.PutUint32(b[0:], 0xBEA77AEB)
	le.PutUint32(b[4:], 1)
	le.PutUint32(b[8:], pageSize)
	le.PutUint64(b[12:], uint64(r.Intn(1<<20))*1024)
	le.PutUint32(b[20:], uint32(r.Intn(2)))
	le.PutUint64(b[24:], uint64(r.Intn(100)))
	tx := r.Uint64()
	switch r.Intn(4) {
	case 0:
		tx = uint64(r.Intn(10))
	case 1:
		tx = ^uint64(0) - uint64(r.Intn(3))
	case 2:
		tx = 1<<63 - 1 + uint64(r.Intn(3))
	}
	le.PutUint64(b[32:], tx)
	le.PutUint64(b[40:], uint64(r.Intn(100)))
	le.PutUint64(b[48:], uint64(r.Intn(100)))
	le.PutUint64(b[56:], uint64(2+r.Intn(100)))
	le.PutUint64(b[64:], uint64(2+r.Intn(100)))
	le.PutUint64(b[72:], uint64(r.Intn(50)))
	le.PutUint32(b[80:], txfile.VerifChecksum(b))
	return b
}

func setTxid(b []byte, tx uint64) {
	binary.LittleEndian.PutUint64(b[32:], tx)
	binary.LittleEndian.PutUint32(b[80:], txfile.VerifChecksum(b))
}

func damage(r *rand.Rand, b []byte) ([]byte, string) {
	c := append([]byte(nil), b...)
	switch r.Intn(7) {
	case 6:
		// the page-size field holds another plausible page size (a power of two >= 1024): multi-bit damage that a
		// single flip can never produce
		cur := binary.LittleEndian.Uint32(c[8:12])
		for {
			v := uint32(1024) << uint(r.Intn(11))
			if v != cur {
				binary.LittleEndian.PutUint32(c[8:12], v)
				break
			}
		}
		return c, "pagesize-field"
	case 0:
		return c, "intact"
	case 1:
		i := r.Intn(len(c) * 8)
		c[i/8] ^= 1 << uint(i%8)
		return c, "bitflip"
	case 2:
		for i := range c {
			c[i] = 0
		}
		return c, "zero"
	case 3:
		r.Read(c)
		return c, "garbage"
	case 4:
		k := r.Intn(len(c))
		o := randHeader(r, 1024)
		copy(c[k:], o[k:])
		return c, "tear"
	default:
		n := 1 + r.Intn(4)
		for j := 0; j < n; j++ {
			c[r.Intn(len(c))] = byte(r.Intn(256))
		}
		return c, "multibyte"
	}
}

func implReadMeta(img []byte) string {
	out, act, txid := txfile.VerifReadValidMeta(simdisk.FromImage("img", img))
	if out == "ok" {
		return fmt.Sprintf("ok %d %d", act, txid)
	}
	return out
}

func modelReadMetaWin(m *model.Client, img []byte) string {
	if len(img) < 84 {
		return m.Ask("readmeta " + model.Hex(img))
	}
	// windows: slot 0, the offset slot 0 names, and every power-of-two offset the repaired reader may probe
	offs := map[int64]bool{0: true, int64(binary.LittleEndian.Uint32(img[8:12])): true}
	for o := int64(1024); o < int64(len(img)); o *= 2 {
		offs[o] = true
	}
	req := fmt.Sprintf("readmeta_win %d", len(img))
	for o := range offs {
		if o+84 <= int64(len(img)) {
			req += fmt.Sprintf(" %d %s", o, model.Hex(img[o:o+84]))
		}
	}
	return m.Ask(req)
}

func runC16(args []string) int {
	f := parseFlags("c16", args)
	rep := newReport("C16", f)
	rep.Rule = "A: crafted pairs of header slots (valid / bit flip / zero / garbage / tear / multi-byte / another plausible page size in the page-size field / equal txid / wrap-around txids) in 2-3 page images, implementation readValidMeta vs. Coq model; " +
		"B: files produced by random histories, each header page damaged by every single bit flip, every byte-prefix tear, zeroes, garbage, other plausible page sizes in the page-size field, slot copies, both-damaged, reopened through the open path and compared with the state of the intact header and with the model. " +
		"C: free-list / mapping page chains written by the implementation with one page damaged (entry counts beyond the page, garbage, truncated entries): readFreeList / readWAL vs. the Coq model, never a panic; the same damage on the meta pages of history images through Open. " +
		"A case is non-trivial when at least one slot is damaged or both are valid with different txids; distinct = distinct (damage kind, slot, position, outcome)."
	m, err := model.Start()
	if err != nil {
		fmt.Fprintln(os.Stderr, "cannot start model:", err)
		return 2
	}
	defer m.Close()

	if f.replay != "" {
		return replayC16(f, rep, m)
	}

	r := rand.New(rand.NewSource(f.seed))
	nA, nB := 3000, 12
	if f.tier == "thorough" {
		nA, nB = 60000, 300
	}
	if f.n > 0 {
		nA, nB = f.n, f.n/100+1
	}

	// ---- part C: the pages an intact header refers to (free list, overwrite mapping) are damaged: the readers
	// answer like the model (error, never a panic)
	pagesK1(rep, m, r, nA/20, true)
	// the older header stays usable: a commit never cuts the file below what the previous commit needs
	truncateK1(rep, m, r, nA/2)

	// ---- part A
	for i := 0; i < nA; i++ {
		if rep.outOfTime() {
			break
		}
		ps := uint32(1024)
		h0 := randHeader(r, ps)
		h1 := randHeader(r, ps)
		switch r.Intn(5) {
		case 0: // consecutive txids
			setTxid(h1, binary.LittleEndian.Uint64(h0[32:])+1)
		case 1:
			setTxid(h1, binary.LittleEndian.Uint64(h0[32:])-1)
		case 2: // equal txids
			setTxid(h1, binary.LittleEndian.Uint64(h0[32:]))
		}
		d0, k0 := damage(r, h0)
		d1, k1 := damage(r, h1)
		pages := 2 + r.Intn(2)
		img := make([]byte, pages*int(ps))
		copy(img, d0)
		copy(img[ps:], d1)
		if r.Intn(40) == 0 {
			img = img[:r.Intn(len(img))]
		}
		impl := implReadMeta(img)
		mod := modelReadMetaWin(m, img)
		rep.Evaluations++
		rep.count("A:"+k0+"/"+k1, 1)
		rep.count("A:outcome:"+firstWord(impl), 1)
		if k0 != "intact" || k1 != "intact" {
			rep.nontrivial(fmt.Sprintf("A/%s/%s/%s", k0, k1, firstWord(impl)))
		}
		if i < 2 {
			rep.sample(map[string]string{"part": "A", "slot0": k0, "slot1": k1, "impl": impl, "model": mod})
		}
		if impl != mod {
			rep.violate(Violation{Kind: "correspondence", Sig: "readValidMeta/" + firstWord(impl) + "-vs-" + firstWord(mod),
				Detail: fmt.Sprintf("readValidMeta: implementation=%q model=%q (slot0 %s, slot1 %s)", impl, mod, k0, k1),
				Replay: c16Replay{Damage: k0 + "/" + k1, Image: model.Hex(img), Expect: mod, Actual: impl}})
		}
		if impl == "panic" {
			rep.violate(Violation{Kind: "oracle", Sig: "open-panics/" + k0 + "/" + k1,
				Detail: "readValidMeta panics on this pair of header slots",
				Replay: c16Replay{Damage: k0 + "/" + k1, Image: model.Hex(img), Expect: "no panic", Actual: impl}})
		}
		// Validate + checksum
		for _, s := range [][]byte{d0, d1} {
			iv := "0"
			if txfile.VerifValidate(s) {
				iv = "1"
			}
			if mv := m.Ask("valid " + model.Hex(s)); mv != iv {
				rep.violate(Violation{Kind: "correspondence", Sig: "validate", Detail: fmt.Sprintf("Validate: impl=%s model=%s", iv, mv),
					Replay: c16Replay{Image: model.Hex(s), Expect: mv, Actual: iv, Damage: "validate"}})
			}
			ic := fmt.Sprint(txfile.VerifChecksum(s))
			if mc := m.Ask("checksum " + model.Hex(s)); mc != ic {
				rep.violate(Violation{Kind: "correspondence", Sig: "checksum", Detail: fmt.Sprintf("checksum: impl=%s model=%s", ic, mc),
					Replay: c16Replay{Image: model.Hex(s), Expect: mc, Actual: ic, Damage: "checksum"}})
			}
		}
	}

	// ---- part B
	// fixed scenario: a rolled-back transaction reuses a page freed by the newest commit (known finding F1)
	c16History(rep, m, engine.Config{PageSize: 1024, MaxSize: 64 * 1024}, []engine.Op{
		{Kind: "begin"}, {Kind: "alloc", N: 3}, {Kind: "setfull", P: 0, Seed: 1}, {Kind: "setfull", P: 1, Seed: 2}, {Kind: "setfull", P: 2, Seed: 3}, {Kind: "commit"},
		{Kind: "begin"}, {Kind: "free", P: 0}, {Kind: "commit"},
		{Kind: "begin"}, {Kind: "alloc", N: 1}, {Kind: "setfull", P: 0, Seed: 9}, {Kind: "flush"}, {Kind: "rollback"},
	}, 77, "")
	// directed: a file that was created and never committed to (both initial header pages must be valid on their own),
	// and one whose only transaction was rolled back
	for i, cfg := range []engine.Config{{PageSize: 1024, MaxSize: 64 * 1024}, {PageSize: 4096, MaxSize: 0, InitMetaArea: 4}, {PageSize: 1024, MaxSize: 128 * 1024, Prealloc: true}} {
		c16History(rep, m, cfg, nil, int64(860+i), "")
		c16History(rep, m, cfg, []engine.Op{{Kind: "begin"}, {Kind: "alloc", N: 3}, {Kind: "setfull", P: 0, Seed: 4}, {Kind: "flush"}, {Kind: "rollback"}}, int64(865+i), "")
		rep.count("B:scenario/fresh-file-without-a-commit", 2)
	}
	// directed: a file that extends beyond a lowered limit; the newest commit frees the pages at the end of the file
	// (the file may be truncated only as far as BOTH headers allow: the older header is the fall-back)
	for v := 0; v < 2; v++ {
		live := 110 + 40*v
		ops := []engine.Op{{Kind: "begin"}, {Kind: "alloc", N: live}}
		for k := 0; k < 10; k++ {
			ops = append(ops, engine.Op{Kind: "setfull", P: live - 1 - 3*k, Seed: 30 + k})
		}
		ops = append(ops, engine.Op{Kind: "setroot", P: live - 1}, engine.Op{Kind: "commit"},
			engine.Op{Kind: "reopen", Flags: uint64(txfile.FlagUpdMaxSize), MaxSize: 64 * 1024},
			engine.Op{Kind: "begin"}, engine.Op{Kind: "setfull", P: 2, Seed: 50}, engine.Op{Kind: "commit"}, engine.Op{Kind: "begin"})
		for k := 0; k < 40; k++ {
			ops = append(ops, engine.Op{Kind: "free", P: live - 1 - k})
		}
		ops = append(ops, engine.Op{Kind: "setroot", P: 1}, engine.Op{Kind: "commit"})
		c16History(rep, m, engine.Config{PageSize: 1024, MaxSize: []uint64{0, 256 * 1024}[v], InitMetaArea: 4}, ops, int64(880+v), "")
		rep.count("B:scenario/file-beyond-its-limit-frees-its-end", 1)
		// ... followed by a write transaction that changes nothing and is rolled back / closed: its truncation of the
		// file has to respect the older header as well
		for t, end := range []string{"rollback", "close"} {
			ops2 := append(append([]engine.Op{}, ops...), engine.Op{Kind: "begin"}, engine.Op{Kind: end})
			c16History(rep, m, engine.Config{PageSize: 1024, MaxSize: []uint64{0, 256 * 1024}[v], InitMetaArea: 4}, ops2, int64(890+2*v+t), "")
			rep.count("B:scenario/file-beyond-its-limit-frees-its-end-then-empty-"+end, 1)
		}
	}
	// directed: a full bounded file whose newest commit(s) used the overflow area: the header's meta end marker lies
	// beyond its data end marker - a legal state that every validation has to accept (seeded change C16n)
	for v := 0; v < 3; v++ {
		hr := rand.New(rand.NewSource(int64(870 + v)))
		ops := fillAllOps(hr)
		for t := 0; t <= v; t++ {
			ops = append(ops, engine.Op{Kind: "begin", Overflow: true, WALLimit: 1000}, engine.Op{Kind: "setfull", P: t, Seed: 20 + t},
				engine.Op{Kind: "setfull", P: 3 + t, Seed: 30 + t}, engine.Op{Kind: "commit"})
		}
		c16History(rep, m, engine.Config{PageSize: 1024, MaxSize: 64 * 1024, InitMetaArea: uint32(2 * (v % 2))}, ops, int64(870+v), "")
		rep.count("B:scenario/newest-commits-use-the-overflow-area", 1)
	}
	for h := 0; h < nB; h++ {
		if rep.outOfTime() {
			break
		}
		hseed := r.Int63()
		hr := rand.New(rand.NewSource(hseed))
		cfg := gen.PickConfig(hr)
		prof := gen.DefaultProfile()
		prof.Readers = false
		prof.MaxTx = 6
		ops := gen.History(hr, prof)
		if h%2 == 0 {
			// end at a commit: nothing is written after the newest commit, the older header's state is intact
			for len(ops) > 0 && ops[len(ops)-1].Kind != "commit" {
				ops = ops[:len(ops)-1]
			}
		}
		c16History(rep, m, cfg, ops, hseed, "")
	}
	rep.ModelCalls = m.N
	return rep.finish(f)
}

func firstWord(s string) string {
	for i := 0; i < len(s); i++ {
		if s[i] == ' ' {
			return s[:i]
		}
	}
	return s
}

// c16History runs one history and all damage cases on its final image.
// onlyDamage != "" restricts to one damage case (replay).
func c16History(rep *Report, m *model.Client, cfg engine.Config, ops []engine.Op, hseed int64, onlyDamage string) {
	e, err := engine.New(cfg)
	if err != nil {
		rep.violate(Violation{Kind: "oracle", Sig: "create-failed", Detail: "creating a new file failed: " + err.Error(), Replay: c16Replay{Config: cfg, HistSeed: hseed}})
		return
	}
	for _, op := range ops {
		e.Apply(op)
	}
	// the pages the newest header refers to (free list and overwrite mapping)
	var metaPageIDs []uint64
	if e.File != nil && e.Tx == nil && !e.Dead {
		snap := txfile.VerifSnapshot(e.File)
		for _, l := range [][]txfile.VerifRegion{snap.FreelistPages, snap.WalMetaPages} {
			for _, r := range l {
				for id := r.ID; id < r.ID+uint64(r.Count); id++ {
					metaPageIDs = append(metaPageIDs, id)
				}
			}
		}
	}
	e.Close()
	rep.Traces++
	if len(e.Failures) > 0 {
		// not this property's business, but the expected states are unreliable then
		rep.count("B:history-with-oracle-failures", 1)
		return
	}
	img := e.Disk.Snapshot()
	ps := int(cfg.PageSize)
	if len(img) < 2*ps {
		return
	}
	slot := func(i int) []byte { return img[i*ps : i*ps+84] }
	tx0 := binary.LittleEndian.Uint64(slot(0)[32:])
	tx1 := binary.LittleEndian.Uint64(slot(1)[32:])
	newest := 0
	if int64(tx1-tx0) > 0 {
		newest = 1
	}
	stateFor := func(txid uint64) (engine.State, bool) {
		var best *engine.State
		for i := range e.History {
			s := &e.History[i]
			if s.Txid <= txid && (best == nil || s.Txid >= best.Txid) {
				best = s
			}
		}
		if best == nil {
			return engine.State{}, false
		}
		return *best, true
	}
	// Were data or meta pages written after the newest commit (by a transaction that was rolled back)?
	// Then pages that are live only in the state of the OLDER header may have been reused: the design
	// protects the newest committed state only (known finding F1).
	laterWrites := false
	for _, op := range e.Disk.Log {
		switch {
		case op.Kind == simdisk.OpMarker && op.Tag == "commit-ok":
			laterWrites = false
		case op.Kind == simdisk.OpWrite && op.Off >= int64(2*ps):
			laterWrites = true
		}
	}
	rep.count(fmt.Sprintf("B:history/laterWrites=%v", laterWrites), 1)
	// previous content of each slot (for tears): last write to that offset before the final one
	prev := [2][]byte{}
	for s := 0; s < 2; s++ {
		var writes [][]byte
		for _, op := range e.Disk.Log {
			if op.Kind == simdisk.OpWrite && !op.Failed && op.Off <= int64(s*ps) && int64(s*ps)+84 <= op.Off+int64(len(op.Data)) {
				o := int64(s*ps) - op.Off
				writes = append(writes, op.Data[o:o+84])
			}
		}
		if len(writes) >= 2 {
			prev[s] = writes[len(writes)-2]
		} else {
			prev[s] = make([]byte, 84)
		}
	}

	type dcase struct {
		name string
		mut  func(b []byte)
		// which slots are damaged
		dam [2]bool
		// the headers are intact, a page they refer to is damaged: Open may fail or succeed, never panic
		metaPage bool
	}
	var cases []dcase
	for _, id := range metaPageIDs {
		base := int(id) * ps
		if base+ps > len(img) {
			continue
		}
		for g := 0; g < 4; g++ {
			g := g
			cases = append(cases, dcase{name: fmt.Sprintf("metapage/%d/%d", id, g), metaPage: true, mut: func(b []byte) {
				switch g {
				case 0: // entry count beyond the page
					for i := 8; i < 12; i++ {
						b[base+i] = 0xff
					}
				case 1: // entry count = capacity + a few
					binary.LittleEndian.PutUint32(b[base+8:], uint32(ps/8))
				default:
					gr := rand.New(rand.NewSource(hseed + int64(g) + int64(id)*1000))
					for i := 0; i < ps; i++ {
						b[base+i] = byte(gr.Intn(256))
					}
					if g == 3 { // keep the chain short: no next page
						for i := 0; i < 8; i++ {
							b[base+i] = 0
						}
					}
				}
			}})
		}
	}
	for s := 0; s < 2; s++ {
		s := s
		base := s * ps
		for bit := 0; bit < 84*8; bit++ {
			bit := bit
			d := dcase{name: fmt.Sprintf("flip/slot%d/bit%d", s, bit), mut: func(b []byte) { b[base+bit/8] ^= 1 << uint(bit%8) }}
			d.dam[s] = true
			cases = append(cases, d)
		}
		for k := 0; k < 84; k++ {
			k := k
			// torn write of the current header over the previous content of the slot
			d := dcase{name: fmt.Sprintf("tear/slot%d/byte%d", s, k), mut: func(b []byte) { copy(b[base+k:base+84], prev[s][k:]) }}
			d.dam[s] = true
			cases = append(cases, d)
		}
		d := dcase{name: fmt.Sprintf("zero/slot%d", s), mut: func(b []byte) {
			for i := 0; i < ps; i++ {
				b[base+i] = 0
			}
		}}
		d.dam[s] = true
		cases = append(cases, d)
		for g := 0; g < 8; g++ {
			g := g
			d := dcase{name: fmt.Sprintf("garbage/slot%d/%d", s, g), mut: func(b []byte) {
				gr := rand.New(rand.NewSource(hseed + int64(g) + int64(s)*100))
				n := 1 + gr.Intn(20)
				for j := 0; j < n; j++ {
					b[base+gr.Intn(84)] = byte(gr.Intn(256))
				}
			}}
			d.dam[s] = true
			cases = append(cases, d)
		}
		for _, v := range []uint32{1024, 2048, 4096, 8192, 1 << 16, 1 << 20} {
			v := v
			if int(v) == ps {
				continue
			}
			d := dcase{name: fmt.Sprintf("pagesize/slot%d/%d", s, v), mut: func(b []byte) { binary.LittleEndian.PutUint32(b[base+8:], v) }}
			d.dam[s] = true
			cases = append(cases, d)
		}
		d = dcase{name: fmt.Sprintf("copy/slot%d-over-slot%d", 1-s, s), mut: func(b []byte) { copy(b[base:base+ps], b[(1-s)*ps:(1-s)*ps+ps]) }}
		cases = append(cases, d) // not "damaged": both slots valid and identical
	}
	both := dcase{name: "zero/both", mut: func(b []byte) {
		for i := 0; i < 2*ps; i++ {
			b[i] = 0
		}
	}}
	both.dam = [2]bool{true, true}
	cases = append(cases, both)
	both2 := dcase{name: "flip/both", mut: func(b []byte) { b[40] ^= 4; b[ps+33] ^= 16 }}
	both2.dam = [2]bool{true, true}
	cases = append(cases, both2)
	// both header pages destroyed, but a page of user data at a power-of-two offset holds a well-formed header image
	// whose page size field equals that offset (a copy of a header kept by the application, a file stored inside the
	// file): there is no intact header, Open has to fail
	if len(img) >= 3*ps && ps&(ps-1) == 0 {
		fake := dcase{name: "userdata/header-image-at-a-page-size-offset", mut: func(b []byte) {
			h := append([]byte(nil), b[newest*ps:newest*ps+84]...)
			binary.LittleEndian.PutUint32(h[8:], uint32(2*ps))
			binary.LittleEndian.PutUint32(h[80:], txfile.VerifChecksum(h))
			copy(b[2*ps:], h)
			for i := 0; i < 2*ps; i++ {
				b[i] = 0
			}
		}}
		fake.dam = [2]bool{true, true}
		cases = append(cases, fake)
	}

	for _, dc := range cases {
		if onlyDamage != "" && dc.name != onlyDamage {
			continue
		}
		dimg := append([]byte(nil), img...)
		dc.mut(dimg)
		rep.Evaluations++
		kind := firstSeg(dc.name)
		rep.count("B:"+kind, 1)
		// which slots are still valid in the damaged image decides the expectation (a tear at a
		// position where old and new agree, or with an equal previous content, may leave the slot valid)
		v := [2]bool{txfile.VerifValidate(dimg[0:84]), txfile.VerifValidate(dimg[ps : ps+84])}
		t := [2]uint64{binary.LittleEndian.Uint64(dimg[32:]), binary.LittleEndian.Uint64(dimg[ps+32:])}
		var expect string
		var want engine.State
		switch {
		case !v[0] && !v[1]:
			expect = "error"
		case v[0] && v[1] && t[0] == t[1]:
			// identical commits: either describes the state
			expect = "state"
			want, _ = stateFor(t[0])
		default:
			pick := 0
			if v[0] && v[1] {
				if int64(t[1]-t[0]) > 0 {
					pick = 1
				}
			} else if v[1] {
				pick = 1
			}
			expect = "state"
			var ok bool
			want, ok = stateFor(t[pick])
			if !ok {
				continue
			}
		}
		if dc.metaPage {
			var actual string
			rep.guard(30*time.Second, Violation{Kind: "oracle", Sig: "open-with-damaged-meta-page/hang",
				Detail: fmt.Sprintf("%s on %s: Open does not return", dc.name, cfg),
				Replay: c16Replay{Config: cfg, Ops: ops, HistSeed: hseed, Damage: dc.name, Expect: "no panic", Actual: "hang"}},
				func() { actual = c16OpenOnly(cfg, dimg) })
			rep.nontrivial(fmt.Sprintf("B/metapage/%d/%s", len(metaPageIDs), actual))
			if actual != "error" && actual != "opened" {
				rep.violate(Violation{Kind: "oracle", Sig: "open-with-damaged-meta-page/panic",
					Detail: fmt.Sprintf("%s on %s: both headers are intact, a free-list / mapping page is damaged: expected an error (or a successful open), got %s", dc.name, cfg, actual),
					Replay: c16Replay{Config: cfg, Ops: ops, HistSeed: hseed, Damage: dc.name, Expect: "no panic", Actual: actual}})
			}
			continue
		}
		// a damaged slot that still validates must be byte-identical to a header that was really written
		for s := 0; s < 2; s++ {
			if dc.dam[s] && v[s] && kind != "tear" && !bytes.Equal(dimg[s*ps:s*ps+84], img[s*ps:s*ps+84]) {
				// (random garbage may happen to write the bytes that are already there: then nothing is damaged)
				rep.violate(Violation{Kind: "oracle", Sig: "damaged-header-validates/" + kind,
					Detail: fmt.Sprintf("%s: the damaged slot %d still validates", dc.name, s),
					Replay: c16Replay{Config: cfg, Ops: ops, HistSeed: hseed, Damage: dc.name, Expect: "invalid", Actual: "valid"}})
			}
		}
		var actual string
		rep.guard(30*time.Second, Violation{Kind: "oracle", Sig: "open-after-damage/" + kind + "/hang",
			Detail: fmt.Sprintf("%s on %s: Open (or the first transaction after it) does not return", dc.name, cfg),
			Replay: c16Replay{Config: cfg, Ops: ops, HistSeed: hseed, Damage: dc.name, Expect: expect, Actual: "hang"}},
			func() { actual = c16Open(cfg, dimg, want, expect) })
		outcome := firstSeg(actual)
		rep.nontrivial(fmt.Sprintf("B/%s/%s/newest%d", dc.name, outcome, newest))
		if rep.Evaluations%997 == 0 {
			rep.sample(map[string]string{"part": "B", "config": cfg.String(), "damage": dc.name, "expect": expect, "actual": actual})
		}
		ok := (expect == "error" && outcome == "error") || (expect == "state" && actual == "state")
		if !ok && expect == "state" && (outcome == "wrong-state" || outcome == "error") && want.Txid != e.Committed.Txid && laterWrites {
			rep.violate(Violation{Kind: "oracle", Sig: "fallback-to-older-header-after-later-writes",
				Detail: fmt.Sprintf("%s on %s: the intact older header is selected, but pages of its state were reused by a transaction begun after the newest commit: %s", dc.name, cfg, actual),
				Replay: c16Replay{Config: cfg, Ops: ops, HistSeed: hseed, Damage: dc.name, Expect: expect, Actual: actual}})
		} else if !ok && kind == "userdata" {
			rep.violate(Violation{Kind: "oracle", Sig: "both-headers-destroyed/header-image-in-user-data-adopted",
				Detail: fmt.Sprintf("%s on %s: both header pages are destroyed; Open adopts a header image found in a page of user data (page 2, page size field = its offset) instead of failing: %s", dc.name, cfg, actual),
				Replay: c16Replay{Config: cfg, Ops: ops, HistSeed: hseed, Damage: dc.name, Expect: expect, Actual: actual}})
		} else if !ok {
			rep.violate(Violation{Kind: "oracle", Sig: fmt.Sprintf("open-after-damage/%s/expect-%s/got-%s", kind, expect, outcome),
				Detail: fmt.Sprintf("%s on %s: expected %s, got %s", dc.name, cfg, expect, actual),
				Replay: c16Replay{Config: cfg, Ops: ops, HistSeed: hseed, Damage: dc.name, Expect: expect, Actual: actual}})
		}
		// model on the same bytes
		impl := implReadMeta(dimg)
		mod := modelReadMetaWin(m, dimg)
		if impl != mod {
			rep.violate(Violation{Kind: "correspondence", Sig: "readValidMeta/" + firstWord(impl) + "-vs-" + firstWord(mod),
				Detail: fmt.Sprintf("%s: readValidMeta implementation=%q model=%q", dc.name, impl, mod),
				Replay: c16Replay{Config: cfg, Ops: ops, HistSeed: hseed, Damage: dc.name, Expect: mod, Actual: impl}})
		}
	}
}

func firstSeg(s string) string {
	for i := 0; i < len(s); i++ {
		if s[i] == '/' || s[i] == ':' {
			return s[:i]
		}
	}
	return s
}

// c16Open opens a damaged image: "error", "panic: ..", "state" (opened and equals want, and
// stays operational), or "wrong-state: ..".
func c16Open(cfg engine.Config, img []byte, want engine.State, expect string) (res string) {
	defer func() {
		if r := recover(); r != nil {
			res = fmt.Sprintf("panic: %v", r)
		}
	}()
	d := simdisk.FromImage("dmg", img)
	e, err := engine.Attach(cfg, d, want, cfg.Options())
	if err != nil {
		if len(err.Error()) >= 5 && err.Error()[:5] == "PANIC" {
			return "panic: " + err.Error()
		}
		return "error"
	}
	defer e.Close()
	if expect == "error" {
		return "opened"
	}
	e.VerifyCommitted("after-open")
	// operational: one more transaction, then verify again
	for _, op := range []engine.Op{{Kind: "begin"}, {Kind: "alloc", N: 2}, {Kind: "setfull", P: 1, Seed: 7}, {Kind: "commit"}, {Kind: "verify"}} {
		e.Apply(op)
	}
	if len(e.Failures) > 0 {
		return "wrong-state: " + e.Failures[0]
	}
	return "state"
}

// c16OpenOnly opens an image whose headers are intact: "error", "opened" or "panic: ..".
func c16OpenOnly(cfg engine.Config, img []byte) (res string) {
	defer func() {
		if r := recover(); r != nil {
			res = fmt.Sprintf("panic: %v", r)
		}
	}()
	d := simdisk.FromImage("dmg", img)
	e, err := engine.Attach(cfg, d, engine.State{}, cfg.Options())
	if err != nil {
		if len(err.Error()) >= 5 && err.Error()[:5] == "PANIC" {
			return "panic: " + err.Error()
		}
		return "error"
	}
	e.Close()
	return "opened"
}

func replayC16(f campaignFlags, rep *Report, m *model.Client) int {
	b, err := os.ReadFile(f.replay)
	if err != nil {
		fmt.Fprintln(os.Stderr, err)
		return 2
	}
	var wrap struct {
		Replay c16Replay `json:"replay"`
	}
	if err := json.Unmarshal(b, &wrap); err != nil {
		fmt.Fprintln(os.Stderr, err)
		return 2
	}
	rp := wrap.Replay
	if len(rp.Ops) > 0 {
		c16History(rep, m, rp.Config, rp.Ops, rp.HistSeed, rp.Damage)
	} else if rp.Image != "" {
		var img []byte
		fmt.Sscanf(rp.Image, "x%x", &img)
		impl := implReadMeta(img)
		mod := modelReadMetaWin(m, img)
		rep.Evaluations++
		if impl != mod || impl == "panic" {
			rep.violate(Violation{Kind: "oracle", Sig: "replay", Detail: fmt.Sprintf("impl=%q model=%q", impl, mod), Replay: rp})
		}
	}
	return rep.finish(f)
}
