package main

import (
	"encoding/json"
	"fmt"
	"math/rand"
	"os"
	"regexp"

	"time"

	"verifharness/engine"
	"verifharness/gen"
	"verifharness/model"
	"verifharness/simdisk"
)

// histReplay is the replay format of all engine based campaigns.
type histReplay struct {
	Config   engine.Config `json:"config"`
	Ops      []engine.Op   `json:"ops"`
	Failures []string      `json:"failures"`
	Log      []string      `json:"log,omitempty"`
	Seed     int64         `json:"hist_seed,omitempty"`
	Mode     string        `json:"mode,omitempty"`
}

var numRe = regexp.MustCompile(`[0-9]+`)
var tagRe = regexp.MustCompile(`^([a-z][a-z0-9]*(?:-[a-z0-9]+)+): `)

// failSig normalises an oracle failure message into a signature.
func failSig(msg string) string {
	// drop the op index prefix, replace numbers
	if i := indexOf(msg, ": "); i >= 0 && len(msg) > 3 && msg[:3] == "op#" {
		msg = msg[i+2:]
	}
	// messages of the form "<tag-without-spaces>: details" are identified by their tag alone
	if m := tagRe.FindStringSubmatch(msg); m != nil {
		return m[1]
	}
	msg = numRe.ReplaceAllString(msg, "N")
	if len(msg) > 90 {
		msg = msg[:90]
	}
	out := make([]byte, 0, len(msg))
	for i := 0; i < len(msg); i++ {
		c := msg[i]
		if c == ' ' {
			c = '_'
		}
		out = append(out, c)
	}
	return string(out)
}

func indexOf(s, sub string) int {
	for i := 0; i+len(sub) <= len(s); i++ {
		if s[i:i+len(sub)] == sub {
			return i
		}
	}
	return -1
}

func loadHistReplay(path string) (histReplay, error) {
	var wrap struct {
		Replay histReplay `json:"replay"`
	}
	b, err := os.ReadFile(path)
	if err != nil {
		return histReplay{}, err
	}
	err = json.Unmarshal(b, &wrap)
	return wrap.Replay, err
}

func opKinds(ops []engine.Op) string {
	s := ""
	for i, o := range ops {
		if i > 0 {
			s += " "
		}
		s += o.String()
	}
	return s
}

// runOracleHistory executes one history with the map oracle and reports oracle failures
// (shrunk) as violations. Returns the engine.
func runOracleHistory(rep *Report, cfg engine.Config, ops []engine.Op, seed int64, mode string, setup func(*engine.Engine), post func(*engine.Engine)) *engine.Engine {
	if commitK1Model != nil {
		// K1 of the commit protocol: every successful commit of the history vs. Model/Commit.v
		inner := setup
		hook := commitK1Hook(rep, commitK1Model)
		setup = func(e *engine.Engine) {
			if inner != nil {
				inner(e)
			}
			prev := e.AfterOp
			e.AfterOp = func(e *engine.Engine, op engine.Op, res engine.Result) {
				if prev != nil {
					prev(e, op, res)
				}
				hook(e, op, res)
			}
		}
	}
	run := func(o []engine.Op) *engine.Engine {
		e, err := engine.RunHistory(cfg, o, setup)
		if err != nil {
			return nil
		}
		if post != nil {
			post(e)
		}
		e.Close()
		return e
	}
	e := run(ops)
	rep.Evaluations++
	if e == nil {
		rep.violate(Violation{Kind: "oracle", Sig: "create-failed", Detail: "creating a new file failed for " + cfg.String(), Replay: histReplay{Config: cfg, Ops: ops, Seed: seed, Mode: mode}})
		return nil
	}
	rep.Traces++
	for k, v := range e.Stats {
		rep.count("op:"+k, v)
	}
	if len(e.Failures) == 0 {
		return e
	}
	sig := failSig(e.Failures[0])
	if rep.distinct["viol/"+sig] {
		rep.count("violation:"+sig, 1)
		return e
	}
	// failures may depend on goroutine timing / map iteration order: try each candidate a few times
	failing := func(c []engine.Op) *engine.Engine {
		for try := 0; try < 3; try++ {
			e2 := run(c)
			if e2 != nil && len(e2.Failures) > 0 && failSig(e2.Failures[0]) == sig {
				return e2
			}
		}
		return nil
	}
	min := engine.Shrink(ops, func(c []engine.Op) bool { return failing(c) != nil })
	e3 := failing(min)
	if e3 == nil {
		e3, min = e, ops
	}
	rep.violate(Violation{Kind: "oracle", Sig: sig,
		Detail: fmt.Sprintf("%s on %s; minimal history: %s", e3.Failures[0], cfg, opKinds(min)),
		Replay: histReplay{Config: cfg, Ops: min, Failures: e3.Failures, Log: e3.Log, Seed: seed, Mode: mode}})
	return e
}

func init() {
	register("c03", func(args []string) int {
		f := parseFlags("c03", args)
		rep := newReport("C03", f)
		rep.Rule = "K1 (writer queue): Schedule / Sync / nextCommand scripts vs. Model/WriterQueue.v; K1 (transaction core): after every commit of histories of allocations, page writes, page / transaction flushes, manual checkpoints and overwrite-page limits 1/2/3/5/1000 the set of pages that have an overwrite page is compared with the Coq model tx_run/tx_commit (theorem commit_reads); K1: random scripts on the page write buffer of a fresh / an existing page (full, partial and oversize SetBytes, Load, in-place modification + MarkDirty, Bytes, Flush, Free) through the public API vs. the Coq model (result kind and bytes after every step); stall scenarios (13-52 pages flushed, rolled back, re-allocated and rewritten while the writer goroutine is slowed down: both writes to a page land in one batch of more than 12 entries; and: manual checkpoint, then the same transaction overwrites the checkpointed pages again - two queued writes per page id without any rollback); directed: pages merely loaded or read in the transaction whose commit runs the automatic checkpoint; random transaction histories (alloc / full+partial SetBytes / Load+MarkDirty / Load / read / free / Flush / page Flush / CheckpointWAL / SetRoot / commit / rollback / close / reopen / concurrent readers) on 8 file configurations; every read inside and outside transactions is compared with a sequential map model; non-trivial = history with at least one committed write; distinct by (config, op-kind multiset)"
		if f.replay != "" {
			rp, err := loadHistReplay(f.replay)
			if err != nil {
				fmt.Fprintln(os.Stderr, err)
				return 2
			}
			runOracleHistory(rep, rp.Config, rp.Ops, rp.Seed, rp.Mode, nil, nil)
			return rep.finish(f)
		}
		r := rand.New(rand.NewSource(f.seed))
		n := 300
		if f.tier == "thorough" {
			n = 6000
		}
		if f.n > 0 {
			n = f.n
		}
		m, err := model.Start()
		if err != nil {
			fmt.Fprintln(os.Stderr, err)
			return 2
		}
		defer m.Close()
		commitK1Model = m
		pageK1(rep, m, r, n/2)
		walK1(rep, m, r, n/3)
		writerQueueK1(rep, m, r, n)
		rep.ModelCalls = m.N
		for i := 0; i < n/10+3; i++ {
			if rep.outOfTime() {
				break
			}
			stallScenario(rep, r)
			stallScenario2(rep, r)
		}
		// directed: pages that are merely loaded (write buffer, not dirty) / read while the commit of their
		// transaction runs the automatic checkpoint of the overwrite mapping
		for i := 0; i < 12; i++ {
			cfg, ops := ckptTouchScenario(i)
			runOracleHistory(rep, cfg, ops, int64(i), "", nil, nil)
			rep.count("scenario:loaded-clean-pages-at-automatic-checkpoint", 1)
		}
		// directed: MarkDirty on pages of the committed state that the transaction never loaded (in place, with an
		// overwrite page, next to pages written normally), commit, reopen: the contents stay (D35)
		for i := 0; i < 6; i++ {
			ops := []engine.Op{{Kind: "begin"}, {Kind: "alloc", N: 5}}
			for k := 0; k < 5; k++ {
				ops = append(ops, engine.Op{Kind: "setfull", P: k, Seed: 60 + k})
			}
			ops = append(ops, engine.Op{Kind: "commit"})
			if i%2 == 1 {
				ops = append(ops, engine.Op{Kind: "begin", WALLimit: 1000}, engine.Op{Kind: "setfull", P: 1, Seed: 70}, engine.Op{Kind: "commit"})
			}
			ops = append(ops, engine.Op{Kind: "begin", WALLimit: 1000}, engine.Op{Kind: "markdirty", P: 1})
			if i%3 == 2 {
				ops = append(ops, engine.Op{Kind: "setfull", P: 3, Seed: 71}, engine.Op{Kind: "markdirty", P: 2}, engine.Op{Kind: "flush"})
			}
			ops = append(ops, engine.Op{Kind: "commit"}, engine.Op{Kind: "verify"}, engine.Op{Kind: "reopen"}, engine.Op{Kind: "verify"})
			cfg := engine.Config{PageSize: 1024, MaxSize: []uint64{0, 128 * 1024}[i%2], InitMetaArea: uint32(4 * (i % 2))}
			runOracleHistory(rep, cfg, ops, int64(100+i), "", nil, nil)
			rep.count("scenario:mark-dirty-without-load", 1)
		}
		for i := 0; i < n; i++ {
			if rep.outOfTime() {
				break
			}
			hseed := r.Int63()
			hr := rand.New(rand.NewSource(hseed))
			cfg := gen.PickConfig(hr)
			ops := gen.History(hr, gen.DefaultProfile())
			var setup func(*engine.Engine)
			if i%3 == 0 {
				// slow writer goroutine: several transactions' page writes end up in one batch
				setup = func(e *engine.Engine) {
					e.Disk.Hook = func(kind simdisk.OpKind, idx int) {
						if kind == simdisk.OpWrite && idx%7 == 2 {
							time.Sleep(300 * time.Microsecond)
						}
					}
				}
			}
			e := runOracleHistory(rep, cfg, ops, hseed, "", setup, nil)
			if e != nil && e.Stats["commit"] > e.Stats["err:commit"] {
				rep.nontrivial(fmt.Sprintf("%s/%v", cfg, e.Stats))
			}
			if i < 2 {
				rep.sample(map[string]interface{}{"config": cfg.String(), "ops": opKinds(ops)})
			}
		}
		return rep.finish(f)
	})
}

// ckptTouchScenario: pages with overwrite pages are merely loaded / read by a transaction whose commit runs the
// automatic checkpoint of the overwrite mapping.
func ckptTouchScenario(i int) (engine.Config, []engine.Op) {
	lim := uint(1 + i%3)
	ops := []engine.Op{{Kind: "begin"}, {Kind: "alloc", N: 6}}
	for k := 0; k < 6; k++ {
		ops = append(ops, engine.Op{Kind: "setfull", P: k, Seed: 10 + k})
	}
	ops = append(ops, engine.Op{Kind: "commit"}, engine.Op{Kind: "begin", WALLimit: 1000})
	for k := 0; k < int(lim)+i%2; k++ { // these pages get overwrite pages
		ops = append(ops, engine.Op{Kind: "setfull", P: k, Seed: 20 + k})
	}
	ops = append(ops, engine.Op{Kind: "commit"}, engine.Op{Kind: "verify"}, engine.Op{Kind: "begin", WALLimit: lim})
	touch := []string{"load", "read", "load"}[i%3]
	for k := 0; k < int(lim)+i%2; k++ {
		ops = append(ops, engine.Op{Kind: touch, P: k})
	}
	ops = append(ops, engine.Op{Kind: "setfull", P: 5, Seed: 31 + i}, engine.Op{Kind: "commit"}, engine.Op{Kind: "verify"},
		engine.Op{Kind: "reopen"}, engine.Op{Kind: "verify"},
		engine.Op{Kind: "begin", WALLimit: lim}, engine.Op{Kind: "setfull", P: 4, Seed: 51 + i}, engine.Op{Kind: "commit"}, engine.Op{Kind: "verify"})
	cfg := engine.Config{PageSize: 1024, MaxSize: []uint64{0, 128 * 1024}[i%2], InitMetaArea: uint32(4 * (i % 2))}
	return cfg, ops
}
