package main

import (
	"encoding/json"
	"flag"
	"fmt"
	"os"
	"sort"
	"strconv"
	"sync"
	"time"
)

// Violation is one failing case found by a campaign.
type Violation struct {
	Kind   string      `json:"kind"`   // "oracle" (property fails on the implementation) or "correspondence" (model and implementation differ)
	Sig    string      `json:"sig"`    // signature used to match known findings
	Detail string      `json:"detail"` // human readable
	Replay interface{} `json:"replay"` // enough to re-execute
}

// Report is what a campaign prints for the check driver.
type Report struct {
	Property     string                 `json:"property"`
	Seed         int64                  `json:"seed"`
	Tier         string                 `json:"tier"`
	Evaluations  int                    `json:"evaluations"`
	Nontrivial   int                    `json:"distinct_nontrivial"`
	Rule         string                 `json:"rule"`
	Samples      []interface{}          `json:"samples"`
	Distribution map[string]int         `json:"distribution"`
	ModelCalls   int                    `json:"model_calls"`
	Traces       int                    `json:"traces_validated_against_impl"`
	Violations   []Violation            `json:"violations"`
	Extra        map[string]interface{} `json:"extra,omitempty"`
	WallS        float64                `json:"wall_s"`

	Partial bool `json:"partial,omitempty"` // written before the campaign ended (checkpoint after a violation, or a watchdog)

	start    time.Time
	distinct map[string]bool
	maxViol  int
	out      string
	mu       sync.Mutex
}

type campaignFlags struct {
	seed   int64
	tier   string
	out    string
	replay string
	n      int
}

func parseFlags(name string, args []string) campaignFlags {
	fs := flag.NewFlagSet(name, flag.ExitOnError)
	var f campaignFlags
	fs.Int64Var(&f.seed, "seed", 1, "PRNG seed")
	fs.StringVar(&f.tier, "tier", "quick", "quick|thorough")
	fs.StringVar(&f.out, "out", "", "report file (default stdout)")
	fs.StringVar(&f.replay, "replay", "", "replay file")
	fs.IntVar(&f.n, "n", 0, "override case count")
	fs.Parse(args)
	return f
}

func newReport(prop string, f campaignFlags) *Report {
	return &Report{Property: prop, Seed: f.seed, Tier: f.tier, Distribution: map[string]int{},
		start: time.Now(), distinct: map[string]bool{}, maxViol: 20, Extra: map[string]interface{}{}, out: f.out}
}

func (r *Report) count(key string, n int) { r.Distribution[key] += n }

// outOfTime: the random part of a campaign stops when its time budget is used up (a loaded machine must not turn
// into a timeout of the check); what was covered is in the report. Budget: 10 min (quick) / 70 min (thorough),
// VERIF_BUDGET_S overrides. Directed scenarios and corpus cases always run.
func (r *Report) outOfTime() bool {
	budget := 600.0
	if r.Tier == "thorough" {
		budget = 4200
	}
	if v := os.Getenv("VERIF_BUDGET_S"); v != "" {
		if b, err := strconv.ParseFloat(v, 64); err == nil && b > 0 {
			budget = b
		}
	}
	if time.Since(r.start).Seconds() < budget {
		return false
	}
	if r.Distribution["stopped-at-time-budget"] == 0 {
		r.Distribution["stopped-at-time-budget"] = 1
	}
	return true
}

// nontrivial registers a case key that is non-trivial by the campaign's rule.
func (r *Report) nontrivial(key string) {
	if !r.distinct[key] {
		r.distinct[key] = true
		r.Nontrivial++
	}
}

func (r *Report) sample(s interface{}) {
	if len(r.Samples) < 5 {
		r.Samples = append(r.Samples, s)
	}
}

func (r *Report) violate(v Violation) {
	r.count("violation:"+v.Sig, 1)
	if r.distinct["viol/"+v.Sig] {
		return
	}
	r.distinct["viol/"+v.Sig] = true
	if len(r.Violations) < r.maxViol {
		r.Violations = append(r.Violations, v)
		r.checkpoint()
	} else {
		r.count("violations_dropped", 1)
	}
}

// checkpoint writes the report as it stands (marked partial): if the campaign is killed later (a hang of
// the implementation under test), the violations found so far are not lost.
func (r *Report) checkpoint() {
	if r.out == "" {
		return
	}
	r.Partial = true
	r.WallS = time.Since(r.start).Seconds()
	if b, err := json.MarshalIndent(r, "", " "); err == nil {
		os.WriteFile(r.out, b, 0o644)
	}
	r.Partial = false
}

// guard runs fn under a watchdog. If fn does not return within limit the implementation hangs on this
// input: a violation is recorded, the report is written and the process exits (the stuck goroutine can not
// be stopped).
func (r *Report) guard(limit time.Duration, v Violation, fn func()) {
	done := make(chan struct{})
	var pv interface{}
	go func() {
		defer close(done)
		defer func() { pv = recover() }()
		fn()
	}()
	select {
	case <-done:
		if pv != nil {
			// a panic of the implementation (or of an oracle working on its output) on this input is a result, not
			// the end of the campaign
			v.Sig = "panic/" + v.Sig
			v.Detail = fmt.Sprintf("PANIC: %v; %s", pv, v.Detail)
			r.violate(v)
		}
	case <-time.After(limit):
		r.mu.Lock()
		v.Detail = fmt.Sprintf("no return after %s: %s", limit, v.Detail)
		r.count("violation:"+v.Sig, 1)
		r.Violations = append(r.Violations, v)
		r.Partial = true
		r.WallS = time.Since(r.start).Seconds()
		b, _ := json.MarshalIndent(r, "", " ")
		if r.out != "" {
			os.WriteFile(r.out, b, 0o644)
		} else {
			fmt.Println(string(b))
		}
		os.Exit(1)
	}
}

func (r *Report) finish(f campaignFlags) int {
	r.WallS = time.Since(r.start).Seconds()
	sort.SliceStable(r.Violations, func(i, j int) bool { return r.Violations[i].Kind > r.Violations[j].Kind })
	b, _ := json.MarshalIndent(r, "", " ")
	if f.out != "" {
		if err := os.WriteFile(f.out, b, 0o644); err != nil {
			fmt.Fprintln(os.Stderr, err)
			return 2
		}
	} else {
		fmt.Println(string(b))
	}
	if len(r.Violations) > 0 {
		return 1
	}
	return 0
}

// jsonUnmarshal decodes b into v (out is only used to keep call sites short).
func jsonUnmarshal(b []byte, v interface{}, out interface{}) error { return json.Unmarshal(b, v) }

// tryRun runs fn and gives up waiting after limit (fn keeps running in its goroutine: used while shrinking,
// where a candidate that hangs is simply not taken).
func tryRun(limit time.Duration, fn func()) bool {
	done := make(chan struct{})
	go func() {
		defer close(done)
		defer func() { recover() }()
		fn()
	}()
	select {
	case <-done:
		return true
	case <-time.After(limit):
		return false
	}
}
