package main

import (
	"encoding/json"
	"flag"
	"fmt"
	"os"
	"sort"
	"time"
)

// Violation is one failing case found by a campaign.
type Violation struct {
	Kind   string      `json:"kind"`   // "oracle" (property fails on the implementation) or "correspondence" (model and implementation differ)
	Sig    string      `json:"sig"`    // signature used to match known findings
	Detail string      `json:"detail"` // human readable
	Replay interface{} `json:"replay"` // enough to re-execute
}

// Report is what a campaign prints for the check driver.
type Report struct {
	Property     string                 `json:"property"`
	Seed         int64                  `json:"seed"`
	Tier         string                 `json:"tier"`
	Evaluations  int                    `json:"evaluations"`
	Nontrivial   int                    `json:"distinct_nontrivial"`
	Rule         string                 `json:"rule"`
	Samples      []interface{}          `json:"samples"`
	Distribution map[string]int         `json:"distribution"`
	ModelCalls   int                    `json:"model_calls"`
	Traces       int                    `json:"traces_validated_against_impl"`
	Violations   []Violation            `json:"violations"`
	Extra        map[string]interface{} `json:"extra,omitempty"`
	WallS        float64                `json:"wall_s"`

	start    time.Time
	distinct map[string]bool
	maxViol  int
}

type campaignFlags struct {
	seed   int64
	tier   string
	out    string
	replay string
	n      int
}

func parseFlags(name string, args []string) campaignFlags {
	fs := flag.NewFlagSet(name, flag.ExitOnError)
	var f campaignFlags
	fs.Int64Var(&f.seed, "seed", 1, "PRNG seed")
	fs.StringVar(&f.tier, "tier", "quick", "quick|thorough")
	fs.StringVar(&f.out, "out", "", "report file (default stdout)")
	fs.StringVar(&f.replay, "replay", "", "replay file")
	fs.IntVar(&f.n, "n", 0, "override case count")
	fs.Parse(args)
	return f
}

func newReport(prop string, f campaignFlags) *Report {
	return &Report{Property: prop, Seed: f.seed, Tier: f.tier, Distribution: map[string]int{},
		start: time.Now(), distinct: map[string]bool{}, maxViol: 20, Extra: map[string]interface{}{}}
}

func (r *Report) count(key string, n int) { r.Distribution[key] += n }

// nontrivial registers a case key that is non-trivial by the campaign's rule.
func (r *Report) nontrivial(key string) {
	if !r.distinct[key] {
		r.distinct[key] = true
		r.Nontrivial++
	}
}

func (r *Report) sample(s interface{}) {
	if len(r.Samples) < 5 {
		r.Samples = append(r.Samples, s)
	}
}

func (r *Report) violate(v Violation) {
	r.count("violation:"+v.Sig, 1)
	if r.distinct["viol/"+v.Sig] {
		return
	}
	r.distinct["viol/"+v.Sig] = true
	if len(r.Violations) < r.maxViol {
		r.Violations = append(r.Violations, v)
	} else {
		r.count("violations_dropped", 1)
	}
}

func (r *Report) finish(f campaignFlags) int {
	r.WallS = time.Since(r.start).Seconds()
	sort.SliceStable(r.Violations, func(i, j int) bool { return r.Violations[i].Kind > r.Violations[j].Kind })
	b, _ := json.MarshalIndent(r, "", " ")
	if f.out != "" {
		if err := os.WriteFile(f.out, b, 0o644); err != nil {
			fmt.Fprintln(os.Stderr, err)
			return 2
		}
	} else {
		fmt.Println(string(b))
	}
	if len(r.Violations) > 0 {
		return 1
	}
	return 0
}

// jsonUnmarshal decodes b into v (out is only used to keep call sites short).
func jsonUnmarshal(b []byte, v interface{}, out interface{}) error { return json.Unmarshal(b, v) }
