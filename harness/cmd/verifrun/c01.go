package main

import (
	"encoding/binary"
	"fmt"
	"math/rand"
	"os"
	"strings"

	txfile "github.com/elastic/go-txfile"

	"verifharness/engine"
	"verifharness/gen"
	"verifharness/model"
	"verifharness/simdisk"
)

// C01: crash atomicity.
//
//  K2  the disk trace of every history is fed to the extracted Coq monitor (write discipline); the
//      crash theorem then covers every crash point and every subset of un-synced writes of that trace;
//  K1  the model's recovery is compared with the real open path on crash images;
//  Oracle / search: crash images are enumerated (every I/O boundary; every subset of the pending page
//      chunks when there are at most 8, otherwise none / all / singletons / complements / random
//      subsets; byte-prefix tears of an in-flight header write), reopened through the real open path,
//      compared with the allowed committed state(s), then a continuation transaction is run and the
//      recovered state is verified again.

type crashReplay struct {
	Config   engine.Config       `json:"config"`
	Ops      []engine.Op         `json:"ops"`
	Boundary int                 `json:"boundary"`
	Keep     []int               `json:"keep_chunks"`
	TearIdx  int                 `json:"tear_chunk"`
	Tear     int                 `json:"tear_bytes"`
	Detail   string              `json:"detail"`
	Faults   []simdisk.FaultRule `json:"faults,omitempty"`
}

// monitorTrace feeds the disk log of an engine to the model's monitor. Returns the first rejection.
func monitorTrace(m *model.Client, e *engine.Engine, ps int, rep *Report) string {
	log := e.Disk.LogCopy()
	// the monitor starts from the image at the first completed sync (file creation finished)
	start := -1
	for i, op := range log {
		if op.Kind == simdisk.OpSync && !op.Failed {
			start = i + 1
			break
		}
	}
	if start < 0 {
		return ""
	}
	shadow := simdisk.BuildImage(e.Disk.Init(), simdisk.Chunks(log, start, int64(ps)), func(int) bool { return true }, -1, -1)
	snapMapped := 4096
	res := m.Ask(fmt.Sprintf("mon_init %d %d %s", ps, snapMapped, model.Hex(shadow)))
	if !strings.HasPrefix(res, "ok") {
		return "initial image: " + res
	}
	for i := start; i < len(log); i++ {
		op := log[i]
		switch {
		case op.Kind == simdisk.OpWrite:
			off, data := op.Off, op.Data
			for len(data) > 0 {
				n := int64(ps) - off%int64(ps)
				if int64(len(data)) < n {
					n = int64(len(data))
				}
				end := off + n
				if int64(len(shadow)) < (off/int64(ps)+1)*int64(ps) {
					shadow = append(shadow, make([]byte, (off/int64(ps)+1)*int64(ps)-int64(len(shadow)))...)
				}
				copy(shadow[off:end], data[:n])
				pid := off / int64(ps)
				page := shadow[pid*int64(ps) : (pid+1)*int64(ps)]
				r := m.Ask(fmt.Sprintf("mon_ev w %d %s", pid, model.Hex(page)))
				rep.count("monitor:writes", 1)
				if r != "ok" {
					return fmt.Sprintf("log #%d write of page %d: %s [%s]", i, pid, r, m.Ask("mon_state"))
				}
				off, data = end, data[n:]
			}
		case op.Kind == simdisk.OpSync && !op.Failed:
			if r := m.Ask("mon_ev s"); r != "ok" {
				return fmt.Sprintf("log #%d sync: %s", i, r)
			}
			rep.count("monitor:syncs", 1)
		case op.Kind == simdisk.OpMarker && op.Tag == "commit-ok":
			// a commit that changed nothing writes the header all the same
			if r := m.Ask("mon_ev c"); r != "ok" {
				return fmt.Sprintf("log #%d commit-ok: %s [%s]", i, r, m.Ask("mon_state"))
			}
			rep.count("monitor:commits", 1)
		}
	}
	return ""
}

// crashCase describes one crash image.
type crashCase struct {
	k       int
	keep    map[int]bool
	tearIdx int
	tear    int
}

// allowedStates returns the history indices a crash at log boundary k may recover to.
func allowedStates(log []simdisk.Op, k int) (last int, inflight int) {
	last, inflight = 0, -1
	begun := false
	for i := 0; i < k && i < len(log); i++ {
		if log[i].Kind != simdisk.OpMarker {
			continue
		}
		switch log[i].Tag {
		case "commit-begin":
			begun = true
		case "commit-ok":
			last++
			begun = false
		case "commit-fail":
			begun = false
		}
	}
	if begun {
		// does this commit succeed later?
		for i := k; i < len(log); i++ {
			if log[i].Kind == simdisk.OpMarker && (log[i].Tag == "commit-ok" || log[i].Tag == "commit-fail") {
				if log[i].Tag == "commit-ok" {
					inflight = last + 1
				}
				break
			}
		}
	}
	return
}

// checkCrashImage reopens one crash image and compares it with the allowed states.
func checkCrashImage(cfg engine.Config, hist []engine.State, img []byte, last, inflight int, m *model.Client, rep *Report) (detail string) {
	defer func() {
		if r := recover(); r != nil {
			detail = fmt.Sprintf("PANIC while recovering: %v", r)
		}
	}()
	ps := int(cfg.PageSize)
	d := simdisk.FromImage("crash", img)
	f, err := txfile.VerifOpen(d, txfile.Options{})
	if err != nil {
		return "reopening the crash image fails: " + err.Error()
	}
	snap := txfile.VerifSnapshot(f)
	txid := snap.Hdr[snap.MetaActive].Txid
	// K1: the model's recovery on the same bytes
	if m != nil {
		impl := recoverString(f)
		mod := m.Ask(fmt.Sprintf("recover %d %d %s", ps, snap.MappedLen/ps, model.Hex(img)))
		rep.count("recover-k1-on-crash-images", 1)
		if impl != mod {
			f.Close()
			return "K1 recovery model differs from the open path: impl=" + trunc(impl, 200) + " model=" + trunc(mod, 200)
		}
	}
	f.Close()
	want := -1
	for _, j := range []int{last, inflight} {
		if j >= 0 && j < len(hist) && hist[j].Txid == txid {
			want = j
		}
	}
	if want < 0 {
		// internal transactions (none in these histories) could shift txids; report
		var ok []uint64
		for _, j := range []int{last, inflight} {
			if j >= 0 && j < len(hist) {
				ok = append(ok, hist[j].Txid)
			}
		}
		return fmt.Sprintf("recovered txid %d, allowed: %v", txid, ok)
	}
	e, err := engine.Attach(cfg, simdisk.FromImage("crash", img), hist[want], txfile.Options{})
	if err != nil {
		return "second open fails: " + err.Error()
	}
	defer e.Close()
	e.VerifyCommitted("recovered state")
	for _, op := range []engine.Op{{Kind: "begin"}, {Kind: "alloc", N: 3}, {Kind: "setfull", P: 0, Seed: 11}, {Kind: "setfull", P: 2, Seed: 12},
		{Kind: "free", P: 1}, {Kind: "commit"}, {Kind: "verify"}, {Kind: "reopen"}, {Kind: "verify"}} {
		e.Apply(op)
	}
	if len(e.Failures) > 0 {
		return fmt.Sprintf("recovered to commit #%d (txid %d): %s", want, txid, e.Failures[0])
	}
	return ""
}

// crashHistory runs one history and explores its crash images.
func crashHistory(rep *Report, m *model.Client, cfg engine.Config, ops []engine.Op, hseed int64, tier string, only *crashReplay) {
	var k1setup func(*engine.Engine)
	if only == nil {
		// K1 of the commit protocol: the disk calls of every successful commit vs. the events of Model/Commit.v
		hook := commitK1Hook(rep, m)
		k1setup = func(e *engine.Engine) { e.AfterOp = hook }
	}
	e, err := engine.RunHistory(cfg, ops, k1setup)
	if err != nil {
		return
	}
	if e.Tx != nil {
		e.Apply(engine.Op{Kind: "commit"})
	}
	e.Apply(engine.Op{Kind: "rcloseall"})
	e.Close()
	rep.Traces++
	if len(e.Failures) > 0 {
		// the committed state is wrong already without a crash (a Commit that returned success is not what later
		// transactions and a reopened file see): the crash images have no reference state to be compared with
		rep.count("history-with-oracle-failures", 1)
		if only == nil {
			rep.violate(Violation{Kind: "oracle", Sig: "no-crash/" + failSig(e.Failures[0]),
				Detail: fmt.Sprintf("without any crash: %s on %s; history: %s", e.Failures[0], cfg, trunc(opKinds(ops), 600)),
				Replay: histReplay{Config: cfg, Ops: ops, Failures: e.Failures, Seed: hseed, Mode: "c01-no-crash"}})
		}
		return
	}
	ps := int(cfg.PageSize)
	// K2: discipline monitor
	if only == nil {
		if rej := monitorTrace(m, e, ps, rep); rej != "" {
			rep.violate(Violation{Kind: "correspondence", Sig: "monitor/" + failSig(rej),
				Detail: "the disk trace violates the commit write discipline (crash theorem hypothesis): " + rej + " on " + cfg.String(),
				Replay: crashReplay{Config: cfg, Ops: ops, Detail: rej}})
		}
		rep.count("monitor:traces", 1)
	}
	log := e.Disk.LogCopy()
	start := 0
	for i, op := range log {
		if op.Kind == simdisk.OpSync && !op.Failed {
			start = i + 1
			break
		}
	}
	r := rand.New(rand.NewSource(hseed))
	// boundaries: after every write / sync / truncate
	var bounds []int
	for k := start; k <= len(log); k++ {
		if k == len(log) || log[k-1].Kind == simdisk.OpWrite || log[k-1].Kind == simdisk.OpSync || log[k-1].Kind == simdisk.OpTruncate {
			bounds = append(bounds, k)
		}
	}
	maxB := 40
	if tier == "thorough" {
		maxB = 100000
	}
	if len(log) > 1500 {
		// a history with a very large transaction: a dozen boundaries, half of them at the end of the log (the big
		// commit's header write and final sync, the small commit after it)
		var sel []int
		for i := 0; i < 8 && i < len(bounds); i++ {
			sel = append(sel, bounds[len(bounds)-1-i])
		}
		for i := 0; i < 8; i++ {
			sel = append(sel, bounds[r.Intn(len(bounds))])
		}
		bounds = sel
	}
	if len(bounds) > maxB {
		r.Shuffle(len(bounds), func(i, j int) { bounds[i], bounds[j] = bounds[j], bounds[i] })
		bounds = bounds[:maxB]
	}
	k1budget := 3
	for _, k := range bounds {
		if only != nil && k != only.Boundary {
			continue
		}
		chunks := simdisk.Chunks(log, k, int64(ps))
		var pend []int
		for i, c := range chunks {
			if !c.Durable {
				pend = append(pend, i)
			}
		}
		last, inflight := allowedStates(log, k)
		var cases []crashCase
		add := func(keep []int, tearIdx, tear int) {
			mk := map[int]bool{}
			for _, i := range keep {
				mk[i] = true
			}
			cases = append(cases, crashCase{k: k, keep: mk, tearIdx: tearIdx, tear: tear})
		}
		if only != nil {
			add(only.Keep, only.TearIdx, only.Tear)
		} else if len(pend) <= 8 && tier == "thorough" || len(pend) <= 4 {
			for mask := 0; mask < 1<<uint(len(pend)); mask++ {
				var keep []int
				for b, i := range pend {
					if mask&(1<<uint(b)) != 0 {
						keep = append(keep, i)
					}
				}
				add(keep, -1, -1)
			}
		} else {
			add(nil, -1, -1)
			add(pend, -1, -1)
			// very many pending chunks (a transaction of thousands of pages): the header chunks and a few others
			singles := pend
			if len(pend) > 64 {
				singles = nil
				for _, i := range pend {
					if c := chunks[i]; !c.Truncate && c.Off < int64(2*ps) {
						singles = append(singles, i)
					}
				}
				for q := 0; q < 6; q++ {
					singles = append(singles, pend[r.Intn(len(pend))])
				}
			}
			for _, i := range singles {
				if tier == "thorough" || len(pend) > 64 || r.Intn(3) == 0 {
					add([]int{i}, -1, -1)
					var comp []int
					for _, j := range pend {
						if j != i {
							comp = append(comp, j)
						}
					}
					add(comp, -1, -1)
				}
			}
			nr := 4
			if tier == "thorough" {
				nr = 64
			}
			for q := 0; q < nr; q++ {
				var keep []int
				for _, i := range pend {
					if r.Intn(2) == 0 {
						keep = append(keep, i)
					}
				}
				add(keep, -1, -1)
			}
		}
		// torn header writes: a pending chunk on page 0 or 1
		if only == nil {
			for _, i := range pend {
				c := chunks[i]
				if !c.Truncate && c.Off < int64(2*ps) && len(c.Data) <= 84 {
					tears := []int{1, 8, 33, 40, 79, 80, 83}
					if tier == "thorough" {
						tears = tears[:0]
						for t := 1; t < len(c.Data); t++ {
							tears = append(tears, t)
						}
					}
					for _, t := range tears {
						others := append([]int(nil), pend...)
						add(others, i, t)
					}
				}
			}
		}
		for _, cc := range cases {
			img := simdisk.BuildImage(e.Disk.Init(), chunks, func(i int) bool { return cc.keep[i] }, cc.tearIdx, cc.tear)
			rep.Evaluations++
			kind := "subset"
			if cc.tearIdx >= 0 {
				kind = "torn-header"
			}
			rep.count("crash-images:"+kind, 1)
			var mm *model.Client
			if k1budget > 0 && r.Intn(20) == 0 {
				mm = m
				k1budget--
			}
			detail := checkCrashImage(cfg, e.History, img, last, inflight, mm, rep)
			rep.nontrivial(fmt.Sprintf("%d/%d/%d/%v/%d", hseed, k, len(cc.keep), cc.tearIdx, cc.tear))
			if detail != "" {
				var keep []int
				for i := range cc.keep {
					keep = append(keep, i)
				}
				sig := "crash/" + failSig(detail)
				if strings.HasPrefix(detail, "K1") {
					rep.violate(Violation{Kind: "correspondence", Sig: "recover-on-crash-image", Detail: detail,
						Replay: crashReplay{Config: cfg, Ops: ops, Boundary: k, Keep: keep, TearIdx: cc.tearIdx, Tear: cc.tear, Detail: detail}})
					continue
				}
				rep.violate(Violation{Kind: "oracle", Sig: sig,
					Detail: fmt.Sprintf("crash at I/O boundary %d of %d (%d of %d pending chunks persisted, tear=%d/%d, last commit #%d, in flight #%d) on %s: %s; history: %s",
						k, len(log), len(cc.keep), len(pend), cc.tearIdx, cc.tear, last, inflight, cfg, detail, trunc(opKinds(ops), 600)),
					Replay: crashReplay{Config: cfg, Ops: ops, Boundary: k, Keep: keep, TearIdx: cc.tearIdx, Tear: cc.tear, Detail: detail}})
			}
		}
	}
}

func init() {
	register("c01", func(args []string) int {
		f := parseFlags("c01", args)
		rep := newReport("C01", f)
		rep.Rule = "random histories (alloc / overwrite / free / flush / checkpoint / rollback, bounded + unbounded, WAL limits 1/2/3/1000, meta areas 0/1/4/8) on the simulated disk; (K2) the complete disk trace of every history is checked by the extracted Coq monitor; (oracle) crash images at I/O boundaries (all in thorough, 40 sampled per history in quick) x subsets of the un-synced page chunks (all subsets up to 4 [quick] / 8 [thorough] chunks, otherwise none/all/singletons/complements/random) x byte-prefix tears of in-flight header writes, each reopened through the real open path, compared with the allowed committed state(s) identified by the header txid, followed by a continuation transaction, re-verification and a second reopen; (K1) the recovery model vs. the open path on sampled crash images; (K1) the writer's scheduling queue (Schedule / Sync / nextCommand with buffers of 1..1024 entries, bursts bigger than the buffer) vs. Model/WriterQueue.v, with the theorem's statement (handed out = scheduled, syncs in place) as an oracle. plus transactions of more than 1024 / 2048 page writes (several batches of the background writer); plus append-only histories whose transactions are flushed early (idle writer at Commit). Non-trivial: every distinct (history, boundary, subset, tear)."
		m, err := model.Start()
		if err != nil {
			fmt.Fprintln(os.Stderr, err)
			return 2
		}
		defer m.Close()
		if f.replay != "" {
			var wrap struct {
				Replay crashReplay `json:"replay"`
			}
			b, err := os.ReadFile(f.replay)
			if err == nil {
				err = jsonUnmarshal(b, &wrap, nil)
			}
			if err != nil {
				fmt.Fprintln(os.Stderr, err)
				return 2
			}
			crashHistory(rep, m, wrap.Replay.Config, wrap.Replay.Ops, 1, "quick", &wrap.Replay)
			return rep.finish(f)
		}
		r := rand.New(rand.NewSource(f.seed))
		n := 40
		if f.tier == "thorough" {
			n = 600
		}
		if f.n > 0 {
			n = f.n
		}
		writerQueueK1(rep, m, r, 10*n)
		truncateK1(rep, m, r, 20*n)
		for i := 0; i < n; i++ {
			if rep.outOfTime() {
				break
			}
			hseed := r.Int63()
			hr := rand.New(rand.NewSource(hseed))
			cfg := gen.PickConfig(hr)
			prof := gen.DefaultProfile()
			prof.Readers = false
			prof.Reopen = i%3 == 0
			prof.MaxTx = 8
			ops := gen.History(hr, prof)
			crashHistory(rep, m, cfg, ops, hseed, f.tier, nil)
			if i < 2 {
				rep.sample(map[string]interface{}{"config": cfg.String(), "ops": trunc(opKinds(ops), 400)})
			}
		}
		// what a commit serialises is what recovery decodes: the region codec incl. the counts around 255, and a history
		// whose committed free list holds a region of exactly 255 pages followed by another one (seeded change C01o = C10g)
		codecCases(rep, m, r, 300)
		for v := 0; v < 2; v++ {
			cfg := engine.Config{PageSize: 1024, MaxSize: []uint64{0, 1024 * 1024}[v], InitMetaArea: 4}
			ops := []engine.Op{{Kind: "begin"}, {Kind: "alloc", N: 300}}
			for k := 0; k < 6; k++ {
				ops = append(ops, engine.Op{Kind: "setfull", P: 290 + k, Seed: 60 + k})
			}
			ops = append(ops, engine.Op{Kind: "setroot", P: 295}, engine.Op{Kind: "commit"}, engine.Op{Kind: "begin"})
			for k := 0; k < 255; k++ {
				ops = append(ops, engine.Op{Kind: "free", P: 10}) // always the 10th remaining page: a contiguous run of 255
			}
			ops = append(ops, engine.Op{Kind: "free", P: 20}, engine.Op{Kind: "free", P: 2}, engine.Op{Kind: "commit"},
				engine.Op{Kind: "reopen"}, engine.Op{Kind: "verify"},
				engine.Op{Kind: "begin"}, engine.Op{Kind: "alloc", N: 270}, engine.Op{Kind: "setfull", P: 1 << 15, Seed: 8}, engine.Op{Kind: "commit"}, engine.Op{Kind: "verify"})
			rep.count("scenario:free-region-of-255-pages-in-the-committed-free-list", 1)
			crashHistory(rep, m, cfg, ops, int64(8200+v), f.tier, nil)
		}
		// pages with overwrite pages that a transaction merely loads / reads while its commit runs the automatic
		// checkpoint of the overwrite mapping (seeded change C01m: the checkpoint skips them and drops their entries)
		for i := 0; i < 6; i++ {
			cfg, ops := ckptTouchScenario(i)
			rep.count("scenario:loaded-clean-pages-at-automatic-checkpoint", 1)
			crashHistory(rep, m, cfg, ops, int64(8000+i), f.tier, nil)
		}
		// transactions far bigger than one batch of the background writer (1024 queued page writes): the sync
		// barriers of the commit must cover all of them
		bigs := []int{2600}
		if f.tier == "thorough" {
			bigs = []int{1100, 1500, 2100, 2600, 3300, 5000}
		}
		for i, nb := range bigs {
			hseed := r.Int63()
			cfg := engine.Config{PageSize: 1024, MaxSize: 0, InitMetaArea: uint32(4 * (i % 2))}
			ops := []engine.Op{{Kind: "begin"}, {Kind: "alloc", N: 2}, {Kind: "setfull", P: 0, Seed: 3}, {Kind: "setfull", P: 1, Seed: 4}, {Kind: "setroot", P: 0}, {Kind: "commit"},
				{Kind: "begin"}, {Kind: "alloc", N: nb}}
			for k := 0; k < nb; k++ {
				ops = append(ops, engine.Op{Kind: "setfull", P: 2 + k, Seed: 1000 + k})
			}
			ops = append(ops, engine.Op{Kind: "setroot", P: 5}, engine.Op{Kind: "commit"})
			rep.count("scenario:transaction-bigger-than-a-writer-batch", 1)
			crashHistory(rep, m, cfg, ops, hseed, f.tier, nil)
			// ... and followed by a small transaction (what was found so far is on disk if the writer goroutine dies)
			rep.checkpoint()
			ops = append(ops, engine.Op{Kind: "begin"}, engine.Op{Kind: "setfull", P: 1, Seed: 9}, engine.Op{Kind: "commit"}, engine.Op{Kind: "verify"})
			crashHistory(rep, m, cfg, ops, hseed+1, f.tier, nil)
		}
		// append-only histories on files without meta area, every transaction is flushed early and the
		// background writer is idle when Commit starts: the commit adds no meta pages, its first sync request
		// reaches the writer without any page write
		for i := 0; i < n/4+3; i++ {
			if rep.outOfTime() {
				break
			}
			hseed := r.Int63()
			hr := rand.New(rand.NewSource(hseed))
			cfg := engine.Config{PageSize: 1024, MaxSize: []uint64{0, 64 * 1024, 256 * 1024}[hr.Intn(3)]}
			var ops []engine.Op
			base := 0
			for t := 1 + hr.Intn(4); t > 0; t-- {
				k := 1 + hr.Intn(4)
				ops = append(ops, engine.Op{Kind: "begin"}, engine.Op{Kind: "alloc", N: k})
				for j := 0; j < k; j++ {
					ops = append(ops, engine.Op{Kind: "setfull", P: base + j, Seed: 1 + hr.Intn(1000)})
				}
				base += k
				if hr.Intn(2) == 0 {
					ops = append(ops, engine.Op{Kind: "setroot", P: base - 1})
				}
				ops = append(ops, engine.Op{Kind: "flush"}, engine.Op{Kind: "drain"}, engine.Op{Kind: "commit"})
			}
			rep.count("scenario:append-only-flushed-early", 1)
			crashHistory(rep, m, cfg, ops, hseed, f.tier, nil)
		}
		// full bounded files whose committed overwrite / mapping / free-list pages live past the size limit (overflow
		// area), followed by transactions that are rolled back, closed or committed: every crash point must still
		// recover the last committed state
		for i := 0; i < n/5+3; i++ {
			if rep.outOfTime() {
				break
			}
			hseed := r.Int63()
			hr := rand.New(rand.NewSource(hseed))
			cfg := engine.Config{PageSize: 1024, MaxSize: uint64(64+hr.Intn(16)) * 1024, InitMetaArea: uint32(hr.Intn(2) * 2)}
			ops := fillAllOps(hr)
			ops = append(ops, engine.Op{Kind: "begin", Overflow: true, WALLimit: 1000})
			for k := 1 + hr.Intn(5); k > 0; k-- {
				ops = append(ops, engine.Op{Kind: "setfull", P: hr.Intn(1 << 16), Seed: 1 + hr.Intn(1000)})
			}
			ops = append(ops, engine.Op{Kind: "commit"})
			switch hr.Intn(3) {
			case 0:
				ops = append(ops, engine.Op{Kind: "begin"}, engine.Op{Kind: "rollback"})
			case 1:
				ops = append(ops, engine.Op{Kind: "begin"}, engine.Op{Kind: "setfull", P: hr.Intn(1 << 16), Seed: 5}, engine.Op{Kind: "close"})
			default:
				ops = append(ops, engine.Op{Kind: "begin", Overflow: true}, engine.Op{Kind: "free", P: hr.Intn(1 << 16)}, engine.Op{Kind: "commit"})
			}
			ops = append(ops, engine.Op{Kind: "verify"})
			rep.count("scenario:overflow-area-then-abort-or-commit", 1)
			crashHistory(rep, m, cfg, ops, hseed, f.tier, nil)
		}
		rep.ModelCalls = m.N
		return rep.finish(f)
	})
}

var _ = binary.LittleEndian
