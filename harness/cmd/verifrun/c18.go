package main

import (
	"fmt"
	"math/rand"
	"os"
	"path/filepath"
	"strings"
	"time"

	txfile "github.com/elastic/go-txfile"
	"github.com/elastic/go-txfile/txerr"

	"verifharness/model"
	"verifharness/simdisk"
)

// C18: the path lock. The one campaign on the OS file system: sequences of
// open / failing open (invalid options, both headers destroyed, max size too small for the mapping ->
// initialisation fails AFTER the lock was taken) / open while held / open with the wait flag / close
// on one path in a temporary directory; result class and lock state compared with Model/OpenLock.v.

type c18Step struct {
	Op    string `json:"op"`
	Impl  string `json:"impl"`
	Model string `json:"model"`
}

// safeClose closes a File; a panic inside Close (which then never reaches the unlock) is reported as an error value.
func safeClose(f *txfile.File) (err error) {
	defer func() {
		if r := recover(); r != nil {
			err = fmt.Errorf("File.Close panicked: %v", r)
		}
	}()
	return f.Close()
}

func classifyOpen(err error) string {
	if err == nil {
		return "ok"
	}
	if txerr.Is(txfile.LockFailed, err) {
		return "lock"
	}
	return "error"
}

func c18Sequence(rep *Report, m *model.Client, r *rand.Rand, dir string, idx int) {
	path := filepath.Join(dir, fmt.Sprintf("f%d.dat", idx))
	defer os.Remove(path)
	defer os.Remove(path + ".lock")
	good := txfile.Options{PageSize: 1024, MaxSize: 128 * 1024}
	var open *txfile.File
	held := false
	exists := false
	var steps []c18Step
	fail := func(sig, detail string) {
		rep.violate(Violation{Kind: "oracle", Sig: sig, Detail: detail, Replay: map[string]interface{}{"steps": steps}})
	}
	n := 4 + r.Intn(12)
	for i := 0; i < n; i++ {
		kind := []string{"open", "open", "open-invalid-options", "open-damaged", "open-too-small", "close", "close", "open-wait", "open-readonly", "open-readonly"}[r.Intn(10)]
		var impl, mod string
		switch kind {
		case "close":
			if open == nil {
				continue
			}
			err := safeClose(open)
			open, held = nil, false
			impl, mod = classifyOpen(err), "ok"
			if err != nil {
				impl = "close-error"
			}
		case "open-wait":
			// with the wait flag the second open blocks until the first File is closed
			if open == nil || !exists {
				continue
			}
			done := make(chan error, 1)
			var f2 *txfile.File
			waitVariant := r.Intn(6)
			rep.count(fmt.Sprintf("open-wait/variant-%d", waitVariant), 1)
			go func() {
				o := good
				o.Flags = txfile.FlagWaitLock
				// the wait flag combined with the other options / flags an Open accepts (seeded change C18k: the
				// options' normalisation drops the wait flag)
				switch waitVariant {
				case 1:
					o.Flags |= txfile.FlagUpdMaxSize
					o.MaxSize = 0
				case 2:
					o.Flags |= txfile.FlagUpdMaxSize
					o.MaxSize = 256 * 1024
				case 3:
					o.Flags |= txfile.FlagUpdMaxSize | txfile.FlagUnboundMaxSize
				case 4:
					o.Readonly = true
				case 5:
					o.MaxSize = 0
				}
				var err error
				f2, err = txfile.Open(path, 0o600, o)
				done <- err
			}()
			select {
			case err := <-done:
				impl = "returned-while-held:" + classifyOpen(err)
				if f2 != nil {
					safeClose(f2)
				}
			case <-time.After(30 * time.Millisecond):
				if cerr := safeClose(open); cerr != nil {
					fail("path-lock/close-panics", cerr.Error())
				}
				open = nil
				select {
				case err := <-done:
					impl = classifyOpen(err)
					if err == nil {
						open, held = f2, true
					} else {
						held = false
					}
				case <-time.After(5 * time.Second):
					impl = "hangs-after-close"
				}
			}
			mod = "ok"
		default:
			opts := good
			env := [3]bool{true, true, true} // opts_valid, os_ok, init_ok
			switch kind {
			case "open-readonly":
				// the path lock is exclusive whatever the options of the two opens are
				if !exists {
					continue
				}
				opts.Readonly = true
			case "open-invalid-options":
				opts.PageSize = 1000 // not a power of two
				env[0] = false
			case "open-damaged":
				if open != nil || !exists {
					continue
				}
				// destroy both headers
				if fh, err := os.OpenFile(path, os.O_WRONLY, 0); err == nil {
					fh.WriteAt(make([]byte, 2048), 0)
					fh.Close()
				}
				env[2] = false
				defer func() {}()
			case "open-too-small":
				// a NEW file whose max size is too small for the memory mapping: Validate accepts the
				// options, the file is created and locked, then the initialisation fails. The lock must
				// be released: the same call fails again with the same (non-lock) error.
				p2 := path + ".small"
				o2 := txfile.Options{PageSize: 1024, MaxSize: 4096}
				for k := 0; k < 2; k++ {
					f2, err := txfile.Open(p2, 0o600, o2)
					c := classifyOpen(err)
					if f2 != nil {
						safeClose(f2)
					}
					mres := firstWord(m.Ask("openstep 0 1 1 0"))
					steps = append(steps, c18Step{Op: "open-new-too-small", Impl: c, Model: mres})
					rep.count("step:open-new-too-small="+c, 1)
					if c != mres {
						fail("path-lock/open-new-too-small/"+c, fmt.Sprintf("attempt %d: implementation %q, model %q", k, c, mres))
					}
				}
				os.Remove(p2)
				os.Remove(p2 + ".lock")
				continue
			}
			res := m.Ask(fmt.Sprintf("openstep %s %s %s %s", b01(held), b01(env[0]), b01(env[1]), b01(env[2])))
			mod = firstWord(res)
			f, err := txfile.Open(path, 0o600, opts)
			impl = classifyOpen(err)
			if err == nil {
				if open != nil {
					fail("path-lock/two-files-open", "a second Open of the same path succeeded while the first File is open")
					safeClose(f)
				} else {
					open, held, exists = f, true, true
				}
			} else if kind == "open-damaged" {
				// the file is useless now: start over with a fresh one
				os.Remove(path)
				exists = false
			}
			if env[0] && err != nil && open == nil && kind == "open" && !held {
				// a valid open of a free path failed
			}
		}
		steps = append(steps, c18Step{Op: kind, Impl: impl, Model: mod})
		rep.count("step:"+kind+"="+impl, 1)
		if impl != mod {
			fail("path-lock/"+kind+"/"+impl, fmt.Sprintf("step %d %s: implementation %q, model %q; steps so far: %v", i, kind, impl, mod, steps))
			break
		}
	}
	if open != nil {
		if cerr := safeClose(open); cerr != nil {
			fail("path-lock/close-panics", cerr.Error())
		}
	}
	// after any history the path can be opened again immediately
	f, err := txfile.Open(path, 0o600, good)
	if err != nil {
		if strings.Contains(classifyOpen(err), "lock") {
			fail("path-lock/stuck-after-history", fmt.Sprintf("after closing everything the path can not be locked: %v; steps: %v", err, steps))
		}
	} else {
		safeClose(f)
	}
	rep.Evaluations++
	key := ""
	for _, s := range steps {
		key += s.Op + "=" + s.Impl + ","
	}
	rep.nontrivial(key)
	if idx < 2 {
		rep.sample(steps)
	}
}

// c18Unmapped: a File that lost its memory mapping (the remap of a commit failed after munmap: finding F3 of C08) is
// closed: Close must still release the path lock, whatever it returns; the path can be opened again at once.
func c18Unmapped(rep *Report, r *rand.Rand) {
	for _, fk := range []simdisk.OpKind{simdisk.OpMMap, simdisk.OpSize} {
		d := simdisk.New("c18")
		opts := txfile.Options{PageSize: 1024, MaxSize: 0}
		f, err := txfile.VerifOpen(d, opts)
		if err != nil {
			continue
		}
		tx, err := f.Begin()
		if err != nil {
			safeClose(f)
			continue
		}
		tx.AllocN(100 + r.Intn(100)) // grows the file past its 64 KiB mapping: the commit has to re-map
		d.SetFaults([]simdisk.FaultRule{{Kind: fk, From: d.Count(fk), Len: 1}})
		cerr := tx.Commit()
		d.SetFaults(nil)
		mapped := txfile.VerifSnapshot(f).MappedLen
		rep.Evaluations++
		rep.count(fmt.Sprintf("unmapped-close:%v:commit-failed=%v:mapped=%v", fk, cerr != nil, mapped > 0), 1)
		done := make(chan error, 1)
		go func() { done <- safeClose(f) }()
		select {
		case <-done:
		case <-time.After(10 * time.Second):
			rep.violate(Violation{Kind: "oracle", Sig: "path-lock/close-of-unmapped-file-hangs", Detail: "File.Close does not return on a File whose re-mapping had failed",
				Replay: map[string]interface{}{"scenario": "unmapped-close", "fault": fk.String()}})
			continue
		}
		rep.nontrivial(fmt.Sprintf("unmapped-close/%v/%v", fk, mapped > 0))
		if d.Locked() {
			rep.violate(Violation{Kind: "oracle", Sig: "path-lock/held-after-close-of-unmapped-file",
				Detail: fmt.Sprintf("after File.Close the path lock is still held (the commit that grew the file failed in its %v step, the File had no mapping: mapped=%d)", fk, mapped),
				Replay: map[string]interface{}{"scenario": "unmapped-close", "fault": fk.String()}})
			continue
		}
		if f2, err := txfile.VerifOpen(d, txfile.Options{}); err != nil {
			if txerr.Is(txfile.LockFailed, err) {
				rep.violate(Violation{Kind: "oracle", Sig: "path-lock/reopen-after-close-of-unmapped-file",
					Detail: "after File.Close the path can not be opened again: " + err.Error(),
					Replay: map[string]interface{}{"scenario": "unmapped-close", "fault": fk.String()}})
			}
		} else {
			f2.Close()
		}
	}
}

func init() {
	register("c18", func(args []string) int {
		f := parseFlags("c18", args)
		rep := newReport("C18", f)
		rep.Rule = "random sequences of open / open with Options.Readonly / open with invalid options / open of a file whose two headers were destroyed (initialisation fails after the lock was taken) / open while another File holds the path / open with FlagWaitLock while held (must block until the holder closes) / close on real files in a temporary directory; each result class (ok, lock error, other error) and the lock state is compared with Model/OpenLock.v; after every sequence the path must be lockable again; on the simulated disk: a File whose re-mapping failed in a commit (no memory mapping left) is closed - the path lock must be released and the path can be opened again. Non-trivial: distinct step/result sequences."
		m, err := model.Start()
		if err != nil {
			fmt.Fprintln(os.Stderr, err)
			return 2
		}
		defer m.Close()
		dir, err := os.MkdirTemp("", "verif-c18-")
		if err != nil {
			fmt.Fprintln(os.Stderr, err)
			return 2
		}
		defer os.RemoveAll(dir)
		r := rand.New(rand.NewSource(f.seed))
		n := 150
		if f.tier == "thorough" {
			n = 4000
		}
		if f.n > 0 {
			n = f.n
		}
		for i := 0; i < n; i++ {
			if rep.outOfTime() {
				break
			}
			c18Sequence(rep, m, r, dir, i)
		}
		for i := 0; i < 3+n/50; i++ {
			if rep.outOfTime() {
				break
			}
			c18Unmapped(rep, r)
		}
		rep.ModelCalls = m.N
		return rep.finish(f)
	})
}
