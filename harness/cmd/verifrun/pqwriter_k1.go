package main

import (
	"fmt"
	"strings"
	"time"

	txfile "github.com/elastic/go-txfile"
	"github.com/elastic/go-txfile/pq"

	"verifharness/model"
	"verifharness/pqengine"
)

// K1 for the queue writer (Model/PQWriter.v: pq/buffer.go + pq/writer.go): the model gets the same Write / Next / Flush
// calls as the real Writer; after EVERY call the complete buffer state (per page: id, first / last event id, first
// offset, end offset, dirty flag, link, payload bytes; available space, page count, position of the open event's
// header, event counters), the queue root (head, tail, pages in use) as stored in the file, and the page images a
// successful flush wrote are compared. Inputs the model cannot know are taken from the implementation: whether a
// flush failed (early = before the page allocation / late = after it: both are tried), and the ids the allocator
// handed out (the pages that are new in the on-disk chain, in chain order).

type pqwK1 struct {
	rep      *Report
	m        *model.Client
	lastW    *pq.Writer
	chainIDs []uint64
	oldTail  uint64 // tail page of the queue root before the call
	cbBefore uint   // total reported by the Flushed callback before the call
	ok       bool   // the model is in step with the implementation
	n        int
}

const pqwHdr = 28 // szEventPageHeader

// time spent in the comparison so far (per campaign process)
var pqwSpent time.Duration

type pqwRoot struct {
	headSet                   bool
	headPage, headOff, headID uint64
	tailPage, tailOff, tailID uint64
	inuse                     uint64
}

// readRoot reads the queue root (writer's fields) and the page chain ids in a read transaction.
func pqwReadRoot(e *pqengine.Engine, walkFromTail bool, from uint64) (r pqwRoot, ids []uint64, tailPage []byte, err error) {
	tx, err := e.File.BeginReadonly()
	if err != nil {
		return r, nil, nil, err
	}
	defer tx.Close()
	ps := uint64(tx.PageSize())
	rootPage, err := tx.Page(tx.Root())
	if err != nil {
		return r, nil, nil, err
	}
	rb, err := rootPage.Bytes()
	if err != nil {
		return r, nil, nil, err
	}
	rb = rb[e.Cfg.RootOff:]
	le := func(b []byte) uint64 {
		var v uint64
		for i := len(b) - 1; i >= 0; i-- {
			v = v<<8 | uint64(b[i])
		}
		return v
	}
	pos := func(off uint64) (page, o uint64) {
		page = off / ps
		o = off - page*ps
		if page != 0 && o == 0 {
			o = ps
		}
		return
	}
	headOff, tailOff := le(rb[4:12]), le(rb[20:28])
	r.headSet = headOff != 0
	r.headPage, r.headOff = pos(headOff)
	r.headID = le(rb[12:20])
	r.tailPage, r.tailOff = pos(tailOff)
	r.tailID = le(rb[28:36])
	r.inuse = le(rb[52:60])
	start := from
	if walkFromTail {
		start = r.tailPage
	}
	for id := start; id != 0 && len(ids) < 1<<16; {
		p, err := tx.Page(txfile.PageID(id))
		if err != nil {
			return r, nil, nil, err
		}
		b, err := p.Bytes()
		if err != nil {
			return r, nil, nil, err
		}
		ids = append(ids, id)
		if id == r.tailPage {
			tailPage = append([]byte(nil), b...)
		}
		id = le(b[0:8])
	}
	return r, ids, tailPage, nil
}

func (r pqwRoot) tokens() string {
	head := "-"
	if r.headSet {
		head = fmt.Sprintf("%d,%d,%d", r.headPage, r.headOff, r.headID)
	}
	return fmt.Sprintf("%s %d,%d,%d %d", head, r.tailPage, r.tailOff, r.tailID, r.inuse)
}

// implState renders the writer's state in the format of the model driver; stale[i] = the model does not know the link
// of page i (left behind by a failed flush).
func pqwImplState(v pq.VerifBuf, root pqwRoot, stale map[int]bool) string {
	var pages []string
	for i, p := range v.Pages {
		data := append([]byte(nil), p.Data...)
		if i == v.HdrIdx {
			// the reserved header of the open event holds whatever the page held before
			for k := v.HdrOff - pqwHdr; k < v.HdrOff-pqwHdr+4 && k < len(data); k++ {
				if k >= 0 {
					data[k] = 0
				}
			}
		}
		next := fmt.Sprint(p.Next)
		if stale[i] {
			next = "-1"
		}
		d := 0
		if p.Dirty {
			d = 1
		}
		pages = append(pages, fmt.Sprintf("%d,%d,%d,%d,%d,%d,%s,%s", p.ID, p.FirstID, p.LastID, p.FirstOff, p.EndOff, d, next, model.Hex(data)))
	}
	return fmt.Sprintf("%d %d %d %d %d %d %d | %s | %s", v.Avail, v.Count, v.HdrIdx, v.HdrOff, v.EventBytes, v.EventID, v.Active,
		root.tokens(), strings.Join(pages, ";"))
}

// stale links of a model state string
func pqwStale(modState string) map[int]bool {
	st := map[int]bool{}
	parts := strings.Split(modState, " | ")
	if len(parts) < 3 {
		return st
	}
	for i, p := range strings.Split(parts[2], ";") {
		f := strings.Split(p, ",")
		if len(f) == 8 && f[6] == "-1" {
			st[i] = true
		}
	}
	return st
}

func (k *pqwK1) fail(e *pqengine.Engine, format string, args ...interface{}) {
	k.ok = false
	e.Fail("k1-pq-writer: "+format, args...)
}

// sync initialises the model from the file when the engine has a new Writer.
func (k *pqwK1) sync(e *pqengine.Engine) bool {
	// only the end of the chain matters: the pages a flush adds follow the tail page
	root, ids, tailPage, err := pqwReadRoot(e, true, 0)
	if err != nil {
		k.ok = false
		return false
	}
	k.chainIDs = ids
	k.oldTail = root.tailPage
	if e.W == k.lastW && k.ok {
		// ACKs move the head and change the page count between two writer calls
		k.m.Ask("pqw_setroot " + root.tokens())
		return true
	}
	k.lastW = e.W
	v := pq.VerifWriterBuffer(e.W)
	pages := int(e.Cfg.WriteBuffer) / int(e.Cfg.PageSize)
	if pages <= 5 {
		pages = 5
	}
	tail := "-"
	if root.tailPage != 0 {
		if tailPage == nil {
			k.fail(e, "the tail page %d of the queue root cannot be read", root.tailPage)
			return false
		}
		le := func(b []byte) uint64 {
			var x uint64
			for i := len(b) - 1; i >= 0; i-- {
				x = x<<8 | uint64(b[i])
			}
			return x
		}
		tail = fmt.Sprintf("%d,%d,%d,%d,%d,%s", root.tailPage, le(tailPage[8:16]), le(tailPage[16:24]), le(tailPage[24:28]), le(tailPage[0:8]),
			model.Hex(tailPage[pqwHdr:root.tailOff]))
	}
	mod := k.m.Ask(fmt.Sprintf("pqw_init %d %d %d %s %s", e.Cfg.PageSize, pages, root.tailID, root.tokens(), tail))
	impl := pqwImplState(v, root, nil)
	k.rep.count("k1:pq-writer-init", 1)
	if !v.Linked {
		k.fail(e, "new writer: the buffer's tail / current page pointers do not agree with its page list")
		return false
	}
	if mod != impl {
		k.fail(e, "new writer (tail %d,%d,%d): model state\n  %s\nimplementation\n  %s", root.tailPage, root.tailOff, root.tailID, trunc(mod, 600), trunc(impl, 600))
		return false
	}
	k.ok = true
	return true
}

func (k *pqwK1) hook(e *pqengine.Engine, phase, kind string, data []byte, err error) {
	if e.W == nil || e.File == nil {
		return
	}
	// the comparison costs two read transactions and a model call with the complete buffer per writer call: it follows
	// the calls of a campaign until its time budget is used up (directed scenarios run first), the oracles go on alone afterwards
	budget := 25 * time.Second
	if k.rep.Tier == "thorough" {
		budget = 20 * time.Minute
	}
	if pqwSpent >= budget {
		k.ok = false
		k.lastW = nil
		return
	}
	t0 := time.Now()
	defer func() { pqwSpent += time.Since(t0) }()
	if phase == "before" {
		k.cbBefore = e.CbFlushed
		k.sync(e)
		return
	}
	if !k.ok || e.W != k.lastW {
		return
	}
	v := pq.VerifWriterBuffer(e.W)
	root, ids, _, rerr := pqwReadRoot(e, k.oldTail == 0, k.oldTail)
	if k.oldTail == 0 {
		// no page before: the chain starts with the new pages
		_, ids, _, rerr = pqwReadRoot(e, false, root.headPage)
	}
	if rerr != nil {
		k.ok = false
		return
	}
	// the pages that are new on the chain, in chain order
	old := map[uint64]bool{}
	for _, id := range k.chainIDs {
		old[id] = true
	}
	var fresh []string
	for _, id := range ids {
		if !old[id] {
			fresh = append(fresh, fmt.Sprint(id))
		}
	}
	op := kind
	if kind == "write" {
		op = "write " + model.Hex(data)
	}
	var tries []string
	if err == nil {
		tries = []string{"ok [" + strings.Join(fresh, ",") + "]"}
	} else {
		tries = []string{"early", "late"}
	}
	k.n++
	k.rep.count("k1:pq-writer-ops", 1)
	var lastMod, lastImpl, lastRes string
	for _, t := range tries {
		ans := k.m.Ask("pqw_try " + op + " " + t)
		i := strings.Index(ans, " | ")
		if i < 0 {
			k.fail(e, "%s: model error: %s", kind, trunc(ans, 300))
			return
		}
		res, mod := ans[:i], ans[i+3:]
		impl := pqwImplState(v, root, pqwStale(mod))
		lastMod, lastImpl, lastRes = mod, impl, res
		wantErr := err != nil
		if strings.HasPrefix(res, "err") != wantErr {
			continue
		}
		if mod != impl {
			continue
		}
		// the Flushed callback: invoked with the model's count, or not at all
		wantCb := -1
		if j := strings.Index(res, "cb="); j >= 0 {
			fmt.Sscan(res[j+3:], &wantCb)
		}
		gotCb := int(e.CbFlushed - k.cbBefore)
		if (wantCb < 0 && gotCb != 0) || (wantCb >= 0 && gotCb != wantCb) {
			k.fail(e, "%s: the Flushed callback reported %d events during the call, the model %d (-1: no callback)", kind, gotCb, wantCb)
			return
		}
		k.m.Ask("pqw_commit")
		k.rep.count("k1:pq-writer/"+kind+"/"+strings.SplitN(strings.TrimPrefix(strings.TrimPrefix(res, "ok "), "err "), " ", 2)[0], 1)
		if !v.Linked {
			k.fail(e, "%s: the buffer's tail / current page pointers do not agree with its page list", kind)
			return
		}
		if j := strings.Index(res, " done "); j >= 0 {
			k.checkImages(e, strings.Fields(res[j+6:]), v)
		}
		return
	}
	k.fail(e, "%s (error: %v; new pages on the chain: %v): model result %q, model state\n  %s\nimplementation\n  %s", kind, err, fresh, trunc(lastRes, 200), trunc(lastMod, 900), trunc(lastImpl, 900))
}

// checkImages compares what the model's flush wrote (page images) with the pages in the file.
func (k *pqwK1) checkImages(e *pqengine.Engine, f []string, v pq.VerifBuf) {
	if len(f) < 3 {
		return
	}
	tx, err := e.File.BeginReadonly()
	if err != nil {
		return
	}
	defer tx.Close()
	le := func(b []byte) uint64 {
		var x uint64
		for i := len(b) - 1; i >= 0; i-- {
			x = x<<8 | uint64(b[i])
		}
		return x
	}
	var hdrPage uint64
	if v.HdrIdx >= 0 && v.HdrIdx < len(v.Pages) {
		hdrPage = v.Pages[v.HdrIdx].ID
	}
	for _, img := range strings.Split(f[2], ";") {
		p := strings.Split(img, ",")
		if len(p) != 6 {
			continue
		}
		var id uint64
		fmt.Sscan(p[0], &id)
		pg, err := tx.Page(txfile.PageID(id))
		if err != nil {
			k.fail(e, "flush: page %d of the model's flush cannot be read: %v", id, err)
			return
		}
		b, err := pg.Bytes()
		if err != nil {
			k.fail(e, "flush: page %d of the model's flush cannot be read: %v", id, err)
			return
		}
		n := (len(p[5]) - 1) / 2
		data := append([]byte(nil), b[pqwHdr:pqwHdr+n]...)
		if id == hdrPage && hdrPage != 0 {
			for q := v.HdrOff - pqwHdr; q < v.HdrOff-pqwHdr+4 && q < len(data); q++ {
				if q >= 0 {
					data[q] = 0
				}
			}
		}
		got := fmt.Sprintf("%d,%d,%d,%d,%d,%s", id, le(b[0:8]), le(b[8:16]), le(b[16:24]), le(b[24:28]), model.Hex(data))
		k.rep.count("k1:pq-writer-page-images", 1)
		if got != img {
			k.fail(e, "flush: page %d in the file is (id,next,first,last,off,payload)\n  %s\nthe model's flush wrote\n  %s", id, trunc(got, 400), trunc(img, 400))
			return
		}
	}
}

// pqWriterK1Setup installs the correspondence check on an engine.
func pqWriterK1Setup(rep *Report, m *model.Client) func(e *pqengine.Engine) {
	return func(e *pqengine.Engine) {
		k := &pqwK1{rep: rep, m: m}
		e.WriterHook = k.hook
	}
}
