package main

import (
	"encoding/json"
	"fmt"
	"math/rand"
	"os"
	"time"

	"verifharness/model"
	"verifharness/pqengine"
)

type pqReplay struct {
	Config   pqengine.Config `json:"config"`
	Ops      []pqengine.Op   `json:"ops"`
	Failures []string        `json:"failures"`
	Log      []string        `json:"log,omitempty"`
	Seed     int64           `json:"hist_seed,omitempty"`
	Mode     string          `json:"mode,omitempty"`
}

func pqOpKinds(ops []pqengine.Op) string {
	s := ""
	for i, o := range ops {
		if i > 0 {
			s += " "
		}
		s += o.String()
	}
	return s
}

func loadPQReplay(path string) (pqReplay, error) {
	var wrap struct {
		Replay pqReplay `json:"replay"`
	}
	b, err := os.ReadFile(path)
	if err != nil {
		return pqReplay{}, err
	}
	err = json.Unmarshal(b, &wrap)
	return wrap.Replay, err
}

// pqShrink minimises a queue history.
func pqShrink(ops []pqengine.Op, fails func([]pqengine.Op) bool) []pqengine.Op {
	cur := append([]pqengine.Op(nil), ops...)
	n := 2
	for len(cur) >= 2 {
		chunk := (len(cur) + n - 1) / n
		reduced := false
		for start := 0; start < len(cur); start += chunk {
			end := start + chunk
			if end > len(cur) {
				end = len(cur)
			}
			cand := append(append([]pqengine.Op(nil), cur[:start]...), cur[end:]...)
			if len(cand) > 0 && fails(cand) {
				cur = cand
				if n > 2 {
					n--
				}
				reduced = true
				break
			}
		}
		if !reduced {
			if n >= len(cur) {
				break
			}
			n *= 2
			if n > len(cur) {
				n = len(cur)
			}
		}
	}
	return cur
}

// runPQHistory executes a queue history with the slice-of-events oracle.
func runPQHistory(rep *Report, cfg pqengine.Config, ops []pqengine.Op, seed int64, mode string, setup func(*pqengine.Engine), post func(*pqengine.Engine)) *pqengine.Engine {
	run := func(o []pqengine.Op) *pqengine.Engine {
		e, err := pqengine.New(cfg)
		if err != nil {
			return nil
		}
		if setup != nil {
			setup(e)
		}
		for _, op := range o {
			if e.Queue == nil {
				break
			}
			e.Apply(op)
		}
		if e.Queue != nil {
			// everything that was flushed must be delivered, in order, byte-identical
			e.Apply(pqengine.Op{Kind: "flush"})
			e.Drain("final drain")
			e.CheckCounters("final")
		}
		if post != nil {
			post(e)
		}
		e.Close()
		return e
	}
	var e *pqengine.Engine
	rep.guard(30*time.Second, Violation{Kind: "oracle", Sig: "pq/history-does-not-terminate",
		Detail: fmt.Sprintf("a queue operation does not return on %s; history: %s", cfg, pqOpKinds(ops)),
		Replay: pqReplay{Config: cfg, Ops: ops, Seed: seed, Mode: mode}}, func() { e = run(ops) })
	rep.Evaluations++
	if e == nil {
		rep.violate(Violation{Kind: "oracle", Sig: "pq-create-failed", Detail: "creating the queue failed for " + cfg.String(), Replay: pqReplay{Config: cfg, Ops: ops, Seed: seed, Mode: mode}})
		return nil
	}
	rep.Traces++
	for k, v := range e.Stats {
		rep.count("op:"+k, v)
	}
	if len(e.Failures) == 0 {
		return e
	}
	sig := "pq/" + failSig(e.Failures[0])
	min := ops
	if !rep.distinct["viol/"+sig] {
		// keep the unshrunk failure on disk: a shrink candidate may hang
		rep.Violations = append(rep.Violations, Violation{Kind: "oracle", Sig: sig,
			Detail: fmt.Sprintf("%s on %s; history (not minimised): %s", e.Failures[0], cfg, pqOpKinds(ops)),
			Replay: pqReplay{Config: cfg, Ops: ops, Failures: e.Failures, Log: e.Log, Seed: seed, Mode: mode}})
		rep.checkpoint()
		rep.Violations = rep.Violations[:len(rep.Violations)-1]
		hangs := 0
		min = pqShrink(ops, func(c []pqengine.Op) bool {
			if hangs >= 3 {
				return false
			}
			var e2 *pqengine.Engine
			if !tryRun(20*time.Second, func() { e2 = run(c) }) {
				hangs++
				return false
			}
			return e2 != nil && len(e2.Failures) > 0 && "pq/"+failSig(e2.Failures[0]) == sig
		})
	}
	var e3 *pqengine.Engine
	if !tryRun(20*time.Second, func() { e3 = run(min) }) {
		e3 = nil
	}
	if e3 == nil || len(e3.Failures) == 0 {
		e3, min = e, ops
	}
	rep.violate(Violation{Kind: "oracle", Sig: sig,
		Detail: fmt.Sprintf("%s on %s; minimal history: %s", e3.Failures[0], cfg, pqOpKinds(min)),
		Replay: pqReplay{Config: cfg, Ops: min, Failures: e3.Failures, Log: e3.Log, Seed: seed, Mode: mode}})
	return e
}

func pqConfigs() []pqengine.Config {
	return []pqengine.Config{
		{PageSize: 1024, MaxSize: 0, WriteBuffer: 0},
		{PageSize: 1024, MaxSize: 0, WriteBuffer: 4096},
		{PageSize: 1024, MaxSize: 0, WriteBuffer: 16 * 1024},
		{PageSize: 1024, MaxSize: 512 * 1024, WriteBuffer: 8192},
		{PageSize: 4096, MaxSize: 0, WriteBuffer: 0},
		{PageSize: 4096, MaxSize: 2 << 20, WriteBuffer: 64 * 1024},
		// the queue embedded with its own transaction options: the automatic checkpoint of the overwrite mapping
		// runs inside the commits that rewrite the queue header / the tail page (seeded change C06k)
		{PageSize: 1024, MaxSize: 0, WriteBuffer: 2048, WALLimit: 1},
		{PageSize: 1024, MaxSize: 512 * 1024, WriteBuffer: 0, WALLimit: 2},
	}
}

func init() {
	register("c05", func(args []string) int {
		f := parseFlags("c05", args)
		rep := newReport("C05", f)
		rep.Rule = "directed: writer restart while an event is unfinished that was already flushed in part; random producer/consumer histories through the public Writer / Reader / ACK API on the simulated disk: events of 1 byte .. 6 pages with every size within +-4 of page / header boundaries, written in 1..40 chunks, explicit flushes (also in the middle of an event), implicit flushes by the write buffer (0 .. 16 pages), reader Begin / Next / partial Read / skip / Done, ACKs, reopen; oracle = slice of events (sizes, bytes, order, nothing delivered twice or skipped; final drain); K1: at the end of every history the extracted model reader (parse_from, and the reader state machine rd_run driven by a random sequence of Next / partial Read calls incl. reads stopping 1-5 bytes before a page end) on the real page chain vs. the real Reader on the same calls; page sizes 1 KiB / 4 KiB. Non-trivial: history with >= 1 event read back; distinct by op statistics."
		if f.replay != "" {
			rp, err := loadPQReplay(f.replay)
			if err != nil {
				fmt.Fprintln(os.Stderr, err)
				return 2
			}
			runPQHistory(rep, rp.Config, rp.Ops, rp.Seed, rp.Mode, nil, nil)
			return rep.finish(f)
		}
		m, err := model.Start()
		if err != nil {
			fmt.Fprintln(os.Stderr, err)
			return 2
		}
		defer m.Close()
		r := rand.New(rand.NewSource(f.seed))
		n := 250
		if f.tier == "thorough" {
			n = 5000
		}
		if f.n > 0 {
			n = f.n
		}
		cfgs := pqConfigs()
		// directed: the writer goes away (Close / reopen) while an event is unfinished that was already flushed in
		// part - with its header in the same page as finished events, in a page of its own, spilled over 1-3 pages -
		// and a new writer appends: everything finished before and after must be delivered
		for i := 0; i < 16; i++ {
			cfg := cfgs[i%len(cfgs)]
			ps := int(cfg.PageSize)
			var ops []pqengine.Op
			first := []int{100, ps - 40, ps/2 + 3, 5}[i%4]
			ops = append(ops, pqengine.Op{Kind: "event", N: first, Seed: 1}, pqengine.Op{Kind: "event", N: 33, Seed: 2})
			if i%2 == 0 {
				ops = append(ops, pqengine.Op{Kind: "flush"})
			}
			part := []int{ps + 17, 3 * ps, 12, 2*ps - 29}[(i/4)%4]
			ops = append(ops, pqengine.Op{Kind: "write", N: part, Seed: 3}, pqengine.Op{Kind: "flush"})
			if i%3 == 0 {
				ops = append(ops, pqengine.Op{Kind: "write", N: ps / 3, Seed: 3}, pqengine.Op{Kind: "flush"})
			}
			ops = append(ops, pqengine.Op{Kind: "reopen"},
				pqengine.Op{Kind: "event", N: 50, Seed: 4}, pqengine.Op{Kind: "event", N: ps + 7, Seed: 5}, pqengine.Op{Kind: "event", N: 3, Seed: 6},
				pqengine.Op{Kind: "flush"}, pqengine.Op{Kind: "reopen"}, pqengine.Op{Kind: "event", N: 9, Seed: 7}, pqengine.Op{Kind: "flush"})
			done := false
			runPQHistory(rep, cfg, ops, int64(900+i), "", pqWriterK1Setup(rep, m), func(e *pqengine.Engine) {
				if !done {
					done = true
					pqStreamK1(rep, m, e, "end of directed history")
				}
			})
			rep.count("scenario:writer-restart-with-a-partly-flushed-unfinished-event", 1)
		}
		// directed: a flush fails AFTER its page allocation (the page writes of its transaction fail) while the buffer
		// holds the allocated tail page and new pages; the failures stop, the flush is repeated, more events follow:
		// everything is delivered (the writer model: only the ids assigned by the failed flush are taken back -
		// seeded change C05n takes the tail page's id as well)
		for i := 0; i < 12; i++ {
			ps := []int{1024, 4096}[i%2]
			cfg := pqengine.Config{PageSize: uint32(ps), MaxSize: []uint64{0, uint64(256 * ps)}[(i/2)%2], WriteBuffer: uint(16 * ps)}
			ops := []pqengine.Op{{Kind: "event", N: []int{100, ps - 60, 7}[i%3], Seed: 1}, {Kind: "flush"},
				{Kind: "event", N: []int{3 * ps, ps / 2, 2*ps + 11, 40}[(i/3)%4], Seed: 2}, {Kind: "event", N: 33, Seed: 3},
				{Kind: "fault", N: 1000}, {Kind: "flush"}, {Kind: "nofault"}, {Kind: "flush"},
				{Kind: "event", N: ps + 5, Seed: 4}, {Kind: "flush"}, {Kind: "reopen"}, {Kind: "event", N: 9, Seed: 5}, {Kind: "flush"}}
			runPQHistory(rep, cfg, ops, int64(950+i), "", pqWriterK1Setup(rep, m), nil)
			rep.count("scenario:flush-fails-after-its-page-allocation-then-retry", 1)
		}
		for i := 0; i < n; i++ {
			if rep.outOfTime() {
				break
			}
			hseed := r.Int63()
			hr := rand.New(rand.NewSource(hseed))
			cfg := cfgs[hr.Intn(len(cfgs))]
			if i%6 == 5 {
				// the queue header at an offset inside a shared root page (a delegate other than the standalone one)
				cfg.RootOff = 64 * uintptr(2+i%9)
				rep.count("queue-header-at-an-offset-of-the-root-page", 1)
			}
			prof := pqengine.Profile{Steps: 20 + hr.Intn(120), MaxEvent: 6 * int(cfg.PageSize), Boundary: true, Reopen: true, PageSize: int(cfg.PageSize), AckPct: 6, Empty: i%3 == 2}
			ops := pqengine.History(hr, prof)
			k1 := rand.New(rand.NewSource(hseed + 1))
			first := true
			e := runPQHistory(rep, cfg, ops, hseed, "", pqWriterK1Setup(rep, m), func(e *pqengine.Engine) {
				if first { // not while shrinking
					first = false
					pqStreamK1(rep, m, e, "end of history")
					pqReaderK1(rep, m, e, k1)
				}
			})
			if e != nil && (e.Stats["rnext"] > 0 || e.Stats["readall"] > 0 || e.Stats["read"] > 0) {
				rep.nontrivial(fmt.Sprintf("%s/%v", cfg, e.Stats))
			}
			if i < 2 {
				rep.sample(map[string]interface{}{"config": cfg.String(), "ops": trunc(pqOpKinds(ops), 500)})
			}
		}
		rep.ModelCalls = m.N
		return rep.finish(f)
	})
}
