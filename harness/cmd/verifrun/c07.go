package main

import (
	"fmt"
	"math/rand"
	"os"
	"reflect"

	txfile "github.com/elastic/go-txfile"

	"verifharness/engine"
	"verifharness/gen"
	"verifharness/model"
)

// Twin executions (C07: abort leaves no trace, C10: close/reopen is lossless).
//
//   C07:  H ; T(aborted) ; K      vs      H ; K
//   C10:  H ; reopen ; K           vs      H ; K
//
// on two disks. Compared: the complete allocator state (hook snapshot, exact) right after the
// interposed part, every result of K (returned page ids, error kinds), every read (map oracle), the
// final allocator state, and the state after a final reopen.

// stateDigest is the comparable part of a file state.
type stateDigest struct {
	Alloc string
	Wal   map[uint64]uint64
	WalPg string
	Root  uint64
}

func digest(e *engine.Engine) stateDigest {
	if e.File == nil {
		return stateDigest{Alloc: "closed"}
	}
	s := txfile.VerifSnapshot(e.File)
	a := txfile.VerifAllocSnapshot(e.File, nil)
	return stateDigest{Alloc: allocStateString(a), Wal: s.WalMapping, WalPg: flat(s.WalMetaPages), Root: s.Hdr[s.MetaActive].Root}
}

func diffDigest(a, b stateDigest) string {
	if a.Alloc != b.Alloc {
		return fmt.Sprintf("allocator state differs: %q vs %q", a.Alloc, b.Alloc)
	}
	if !reflect.DeepEqual(a.Wal, b.Wal) && (len(a.Wal) > 0 || len(b.Wal) > 0) {
		return fmt.Sprintf("overwrite mapping differs: %v vs %v", a.Wal, b.Wal)
	}
	if a.WalPg != b.WalPg {
		return fmt.Sprintf("mapping pages differ: %s vs %s", a.WalPg, b.WalPg)
	}
	if a.Root != b.Root {
		return fmt.Sprintf("root differs: %d vs %d", a.Root, b.Root)
	}
	return ""
}

type twinReplay struct {
	Config   engine.Config `json:"config"`
	H        []engine.Op   `json:"prefix"`
	T        []engine.Op   `json:"interposed"`
	K        []engine.Op   `json:"continuation"`
	Failures []string      `json:"failures"`
	Seed     int64         `json:"hist_seed"`
	Mode     string        `json:"mode"`
}

// twinRun executes the twin pair and returns the differences found.
func twinRun(cfg engine.Config, H, T, K []engine.Op, exactAfterT bool) (fails []string, stats map[string]int) {
	mk := func() *engine.Engine {
		e, err := engine.New(cfg)
		if err != nil {
			return nil
		}
		e.DetFlush = true
		return e
	}
	a, b := mk(), mk()
	if a == nil || b == nil {
		return []string{"creating the file failed"}, nil
	}
	defer a.Close()
	defer b.Close()
	for _, op := range H {
		a.Apply(op)
		b.Apply(op)
	}
	before := digest(a)
	for _, op := range T {
		res := a.Apply(op)
		if op.Kind == "commit" && res.Err == "" && !res.Skipped {
			// the injected fault did not hit this commit: not an aborted transaction, nothing to compare
			return nil, map[string]int{"not-aborted": 1}
		}
	}
	a.Disk.Fault = nil
	if a.Tx != nil {
		return []string{"harness: interposed part left a transaction open"}, nil
	}
	if len(a.Failures) > 0 {
		fails = append(fails, "oracle failure in A: "+a.Failures[0])
	}
	if exactAfterT {
		if d := diffDigest(digest(a), before); d != "" {
			fails = append(fails, "state after the interposed part differs from the state before it: "+d)
		}
	}
	for i, op := range K {
		ra := a.Apply(op)
		rb := b.Apply(op)
		if ra.Err != rb.Err || !reflect.DeepEqual(ra.IDs, rb.IDs) || ra.Skipped != rb.Skipped {
			fails = append(fails, fmt.Sprintf("continuation op %d %v: with the interposed part -> (err=%q ids=%v), without -> (err=%q ids=%v)", i, op, ra.Err, ra.IDs, rb.Err, rb.IDs))
			break
		}
	}
	for _, e := range []*engine.Engine{a, b} {
		if e.Tx != nil {
			e.Apply(engine.Op{Kind: "rollback"})
		}
		e.Apply(engine.Op{Kind: "rcloseall"})
	}
	if len(a.Failures) > 0 && len(fails) == 0 {
		fails = append(fails, "oracle failure in A: "+a.Failures[0])
	}
	if len(b.Failures) > 0 {
		fails = append(fails, "oracle failure in B (no interposed part): "+b.Failures[0])
	}
	if f, n := rollbackTruncK1(a); len(fails) == 0 {
		fails = append(fails, f...)
		a.Stats["rollback-truncate-k1"] += n
	}
	if d := diffDigest(digest(a), digest(b)); d != "" && len(fails) == 0 {
		fails = append(fails, "final state differs: "+d)
	}
	// and after reopening both (a commit whose only failure was its final sync may legitimately be
	// found committed after a reopen - C08 - so that case is decided there, not here)
	for i, op := range T {
		if op.Kind == "fault" && op.P%6 == 1 && op.N >= 1 && i == len(T)-2 {
			return fails, a.Stats
		}
	}
	a.Apply(engine.Op{Kind: "reopen"})
	b.Apply(engine.Op{Kind: "reopen"})
	a.Apply(engine.Op{Kind: "verify"})
	b.Apply(engine.Op{Kind: "verify"})
	if d := diffDigest(digest(a), digest(b)); d != "" && len(fails) == 0 {
		fails = append(fails, "state after reopen differs: "+d)
	}
	if len(a.Failures) > 0 && len(fails) == 0 {
		fails = append(fails, "oracle failure in A after reopen: "+a.Failures[0])
	}
	return fails, a.Stats
}

func twinCase(rep *Report, cfg engine.Config, H, T, K []engine.Op, seed int64, mode string, exactAfterT bool) {
	fails, stats := twinRun(cfg, H, T, K, exactAfterT)
	rep.Evaluations++
	rep.Traces += 2
	for k, v := range stats {
		rep.count("op:"+k, v)
	}
	rep.nontrivial(fmt.Sprintf("%s/%s/%v", mode, cfg, stats))
	if len(fails) == 0 {
		return
	}
	sig := mode + "/" + failSig(fails[0])
	if !rep.distinct["viol/"+sig] {
		// shrink the three parts one after the other
		still := func(h, t, k []engine.Op) bool {
			f, _ := twinRun(cfg, h, t, k, exactAfterT)
			return len(f) > 0 && mode+"/"+failSig(f[0]) == sig
		}
		K = engine.Shrink(K, func(c []engine.Op) bool { return still(H, T, c) })
		if still(H, T, nil) {
			K = nil
		}
		H = engine.Shrink(H, func(c []engine.Op) bool { return still(c, T, K) })
		if still(nil, T, K) {
			H = nil
		}
		if mode != "reopen" {
			T = shrinkTx(T, func(c []engine.Op) bool { return still(H, c, K) })
		}
		fails, _ = twinRun(cfg, H, T, K, exactAfterT)
		if len(fails) == 0 {
			fails = []string{"(flaky) " + sig}
		}
	}
	rep.violate(Violation{Kind: "oracle", Sig: sig,
		Detail: fmt.Sprintf("%s on %s; prefix: %s | interposed: %s | continuation: %s", fails[0], cfg, opKinds(H), opKinds(T), opKinds(K)),
		Replay: twinReplay{Config: cfg, H: H, T: T, K: K, Failures: fails, Seed: seed, Mode: mode}})
}

// shrinkTx shrinks the body of an aborted transaction, keeping its first (begin) and last op.
func shrinkTx(T []engine.Op, fails func([]engine.Op) bool) []engine.Op {
	if len(T) <= 2 {
		return T
	}
	tail := 1
	if len(T) >= 3 && T[len(T)-2].Kind == "fault" {
		tail = 2 // keep the fault directive together with the failing commit
	}
	first, last, body := T[0], T[len(T)-tail:], T[1:len(T)-tail]
	wrap := func(b []engine.Op) []engine.Op {
		return append(append([]engine.Op{first}, b...), last...)
	}
	if fails(wrap(nil)) {
		return wrap(nil)
	}
	body = engine.Shrink(body, func(c []engine.Op) bool { return fails(wrap(c)) })
	return wrap(body)
}

// abortedTx generates the body of a transaction that does not commit successfully.
func abortedTx(r *rand.Rand, prof gen.Profile) ([]engine.Op, string) {
	b := engine.Op{Kind: "begin", WALLimit: prof.WALLimits[r.Intn(len(prof.WALLimits))], Overflow: r.Intn(4) == 0}
	ops := []engine.Op{b}
	n := 1 + r.Intn(prof.MaxBody+4)
	for i := 0; i < n; i++ {
		ops = append(ops, gen.BodyOp(r, prof))
	}
	switch r.Intn(4) {
	case 0:
		return append(ops, engine.Op{Kind: "rollback"}), "rollback"
	case 1:
		return append(ops, engine.Op{Kind: "close"}), "close"
	case 2:
		// failing commit: the first sync of the commit fails
		return append(ops, engine.Op{Kind: "fault", P: 1, N: 0, Len: 1}, engine.Op{Kind: "commit"}), "commit-fails-at-sync1"
	default:
		// failing commit: the sync after the header write fails, or a page write fails
		if r.Intn(2) == 0 {
			return append(ops, engine.Op{Kind: "fault", P: 1, N: 1, Len: 1}, engine.Op{Kind: "commit"}), "commit-fails-at-sync2"
		}
		return append(ops, engine.Op{Kind: "fault", P: 0, N: r.Intn(3), Len: 1}, engine.Op{Kind: "commit"}), "commit-fails-at-write"
	}
}

func loadTwinReplay(path string) (twinReplay, error) {
	var wrap struct {
		Replay twinReplay `json:"replay"`
	}
	b, err := os.ReadFile(path)
	if err != nil {
		return twinReplay{}, err
	}
	return wrap.Replay, jsonUnmarshal(b, &wrap, &wrap.Replay)
}

func init() {
	register("c07", func(args []string) int {
		f := parseFlags("c07", args)
		rep := newReport("C07", f)
		rep.Rule = "K1: the file size after every Rollback / Close vs. the Coq model rollback_truncate; twin executions H;T;K vs H;K on two disks, T = one write transaction ending in Rollback / Close / a Commit that fails (sync #1, sync #2 or a page write fails): T's body allocates from free list and file end, frees old and fresh pages, overwrites (meta growth), flushes; compared: exact allocator state + mapping + root before/after T, every result of K (ids, error kinds), all reads, final state, state after reopen; directed: aborted transactions on a full bounded file with a live overflow area; K1: allocator scripts ending in rollback or in a commit that fails after its allocation step vs. the Coq model (full state after every op). Non-trivial: distinct (config, abort kind, op statistics)."
		m, err := model.Start()
		k1Model = m
		if err != nil {
			fmt.Fprintln(os.Stderr, err)
			return 2
		}
		defer m.Close()
		if f.replay != "" {
			rp, err := loadTwinReplay(f.replay)
			if err != nil {
				fmt.Fprintln(os.Stderr, err)
				return 2
			}
			twinCase(rep, rp.Config, rp.H, rp.T, rp.K, rp.Seed, rp.Mode, true)
			return rep.finish(f)
		}
		r := rand.New(rand.NewSource(f.seed))
		n, nS := 250, 300
		if f.tier == "thorough" {
			n, nS = 5000, 8000
		}
		if f.n > 0 {
			n = f.n
		}
		allocK1(rep, m, r, nS, 0, 0)
		for i := 0; i < n; i++ {
			if rep.outOfTime() {
				break
			}
			hseed := r.Int63()
			hr := rand.New(rand.NewSource(hseed))
			cfg := gen.PickConfig(hr)
			prof := gen.DefaultProfile()
			prof.Readers = false
			prof.Reopen = false
			prof.MaxTx = 6
			H := gen.History(hr, prof)
			T, kind := abortedTx(hr, prof)
			K := gen.History(hr, prof)
			rep.count("abort:"+kind, 1)
			twinCase(rep, cfg, H, T, K, hseed, "abort/"+kind, true)
			if i < 2 {
				rep.sample(map[string]interface{}{"config": cfg.String(), "abort": kind, "prefix": opKinds(H), "aborted_tx": opKinds(T), "continuation": opKinds(K)})
			}
		}
		// directed: a full bounded file whose overwrite / mapping / free-list pages live in an overflow area behind the
		// size limit; every kind of aborted transaction (also one with the overflow area enabled that grows it)
		for i := 0; i < 24; i++ {
			hseed := r.Int63()
			hr := rand.New(rand.NewSource(hseed))
			cfg := engine.Config{PageSize: 1024, MaxSize: uint64(64+hr.Intn(32)) * 1024, InitMetaArea: uint32(hr.Intn(2) * 2)}
			H := fillAllOps(hr)
			H = append(H, engine.Op{Kind: "begin", Overflow: true, WALLimit: 1000})
			for k := 2 + hr.Intn(6); k > 0; k-- {
				H = append(H, engine.Op{Kind: "setfull", P: hr.Intn(1 << 16), Seed: 1 + hr.Intn(1000)})
			}
			H = append(H, engine.Op{Kind: "commit"}, engine.Op{Kind: "verify"})
			prof := gen.DefaultProfile()
			prof.Readers = false
			prof.Reopen = false
			prof.MaxTx = 3
			T, kind := abortedTx(hr, prof)
			if i%2 == 0 {
				T[0].Overflow = true
			}
			K := []engine.Op{{Kind: "verify"}, {Kind: "begin", Overflow: true, WALLimit: 1000}, {Kind: "setfull", P: hr.Intn(1 << 16), Seed: 77}, {Kind: "free", P: hr.Intn(1 << 16)}, {Kind: "commit"}, {Kind: "verify"}}
			rep.count("scenario:abort-on-a-full-file-with-an-overflow-area/"+kind, 1)
			twinCase(rep, cfg, H, T, K, hseed, "abort-overflow/"+kind, true)
		}
		rep.ModelCalls = m.N
		return rep.finish(f)
	})
}
