package main

import (
	"bytes"
	"fmt"
	"math/rand"
	"os"
	"strings"
	"sync"
	"sync/atomic"
	"time"

	txfile "github.com/elastic/go-txfile"
	"github.com/elastic/go-txfile/pq"

	"verifharness/model"
	"verifharness/pqengine"
	"verifharness/simdisk"
)

// ---------------------------------------------------------------------------------------------
// K1: the model's reader (parse_from) on the real page chain

func pqStreamK1(rep *Report, m *model.Client, e *pqengine.Engine, what string) {
	if e.Queue == nil || e.File == nil {
		return
	}
	// the page headers as the writer maintains them (Model/PQAck.v): the events starting in consecutive pages
	// have consecutive ids, the last one is the event before the tail id
	if cs, cerr := e.Chain(); cerr == nil && len(cs.Pages) > 0 {
		rep.count("k1:page-header-chains", 1)
		var prev uint64
		seen := false
		for k, pg := range cs.Pages {
			if pg.Off == 0 {
				continue
			}
			if pg.Last < pg.First || (seen && pg.First != prev+1) {
				rep.violate(Violation{Kind: "oracle", Sig: "pq-page-headers/first-last-ids-not-consecutive",
					Detail: fmt.Sprintf("%s: page %d (chain index %d) says first=%d last=%d, the previous page with events ends with id %d; headers (id first last off): %v", what, pg.ID, k, pg.First, pg.Last, prev, cs.Pages),
					Replay: pqReplay{Config: e.Cfg, Log: tailLog(e.Log, 300), Mode: "page-headers"}})
				break
			}
			prev, seen = pg.Last, true
		}
		if seen && prev+1 != cs.TailID {
			rep.violate(Violation{Kind: "oracle", Sig: "pq-page-headers/last-id-vs-tail",
				Detail: fmt.Sprintf("%s: the last event id in the page headers is %d, the tail id of the queue root %d", what, prev, cs.TailID),
				Replay: pqReplay{Config: e.Cfg, Log: tailLog(e.Log, 300), Mode: "page-headers"}})
		} else if seen && cs.TailID == uint64(e.Flushed) {
			// K1 (writer side): the page in which each event starts, as the page headers say (first / last / off),
			// vs. the layout rule of the Coq model (starts_from; theorem ack_on_layout builds on it)
			const hdr = 28 // szEventPageHeader
			P := int(e.Cfg.PageSize) - hdr
			var ps []string
			var id0 uint64
			pos := -1
			for k, pg := range cs.Pages {
				if pg.Off == 0 {
					continue
				}
				if pos < 0 {
					id0, pos = pg.First, k*P+int(pg.Off)-hdr
				}
				for i := pg.First; i <= pg.Last && len(ps) < 1<<16; i++ {
					ps = append(ps, fmt.Sprint(k))
				}
			}
			if pos >= 0 && int(id0)+len(ps) <= len(e.Events) {
				lens := make([]string, len(ps))
				for i := range ps {
					lens[i] = fmt.Sprint(len(e.Events[int(id0)+i]))
				}
				mod := m.Ask(fmt.Sprintf("starts %d %d %s", P, pos, strings.Join(lens, " ")))
				rep.count("k1:event-start-pages", 1)
				if impl := strings.Join(ps, ","); impl != mod {
					rep.violate(Violation{Kind: "correspondence", Sig: "pq-page-headers/event-start-pages",
						Detail: fmt.Sprintf("%s: the pages in which the events %d.. start according to the page headers: [%s], according to the layout model: [%s]; headers (id first last off): %v", what, id0, trunc(impl, 200), trunc(mod, 200), cs.Pages),
						Replay: pqReplay{Config: e.Cfg, Log: tailLog(e.Log, 300), Mode: "page-headers"}})
				}
			}
		}
	}
	stream, payload, pos, n, _, err := e.RawStream()
	if err != nil {
		e.Fail("%s: walking the page chain failed: %v", what, err)
		return
	}
	if n != e.Flushed-e.Acked {
		e.Fail("%s: the queue header says %d un-ACKed events, the model %d", what, n, e.Flushed-e.Acked)
		return
	}
	if n == 0 || len(stream) > 200000 {
		return
	}
	res := m.Ask(fmt.Sprintf("pqparse %d %d %d %s", payload, pos, n, model.Hex(stream)))
	rep.count("k1:stream-parses", 1)
	want := []string{"ok"}
	for i := e.Acked; i < e.Flushed; i++ {
		want = append(want, model.Hex(e.Events[i]))
	}
	if res != strings.Join(want, " ") {
		rep.violate(Violation{Kind: "correspondence", Sig: "pq-framing/model-reader-on-real-pages",
			Detail: fmt.Sprintf("%s: the model reader (parse_from, P=%d, pos=%d, n=%d) on the real page chain does not return the events written: %s", what, payload, pos, n, trunc(res, 120)),
			Replay: pqReplay{Config: e.Cfg, Log: e.Log, Mode: "stream-k1"}})
	}
}

// K1: the model's reader state machine (rd_run: Next / partial Read / skip) and the real Reader get the same
// random call sequence on the same page chain; every reported size and every returned byte string must agree
func pqReaderK1(rep *Report, m *model.Client, e *pqengine.Engine, r *rand.Rand) {
	if e.Queue == nil || e.File == nil {
		return
	}
	e.Apply(pqengine.Op{Kind: "flush"})
	e.Apply(pqengine.Op{Kind: "rdone"})
	e.Apply(pqengine.Op{Kind: "reopen"}) // a fresh reader: it starts at the first un-ACKed event
	if e.Queue == nil || e.R == nil {
		return
	}
	stream, payload, pos, n, _, err := e.RawStream()
	if err != nil || n == 0 || len(stream) > 60000 {
		return
	}
	ps := int(e.Cfg.PageSize)
	cnt := 2*n + 4
	if cnt > 80 {
		cnt = 80
	}
	var ops, outs []string
	if err := e.R.Begin(); err != nil {
		return
	}
	defer e.R.Done()
	for i := 0; i < cnt; i++ {
		if r.Intn(3) == 0 {
			ops = append(ops, "n")
			sz, err := e.R.Next()
			if err != nil {
				e.Fail("reader K1: Next failed: %v", err)
				return
			}
			outs = append(outs, fmt.Sprintf("s%d", sz))
			continue
		}
		k := 1 + r.Intn(2*ps)
		switch r.Intn(4) {
		case 0:
			k = 1 + r.Intn(8)
		case 1:
			// stop a few bytes before the end of the reader's page
			_, _, _, off, _ := pq.VerifReaderState(e.R)
			if g := ps - off - (1 + r.Intn(5)); g > 0 {
				k = g
			}
		}
		ops = append(ops, fmt.Sprintf("r%d", k))
		buf := make([]byte, k)
		got, err := e.R.Read(buf)
		if err != nil {
			e.Fail("reader K1: Read failed: %v", err)
			return
		}
		outs = append(outs, "b"+model.Hex(buf[:got]))
	}
	res := m.Ask(fmt.Sprintf("rdrun %d %d %d %s %s", payload, pos, n, model.Hex(stream), strings.Join(ops, " ")))
	rep.count("k1:reader-state-machine-runs", 1)
	rep.count("k1:reader-state-machine-calls", cnt)
	if want := strings.Join(outs, " "); res != want {
		// first difference
		a, b := strings.Fields(res), outs
		i := 0
		for i < len(a) && i < len(b) && a[i] == b[i] {
			i++
		}
		ma, mb := "(none)", "(none)"
		if i < len(a) {
			ma = trunc(a[i], 60)
		}
		if i < len(b) {
			mb = trunc(b[i], 60)
		}
		rep.violate(Violation{Kind: "correspondence", Sig: "pq-reader/model-state-machine-vs-reader",
			Detail: fmt.Sprintf("call #%d (%s) of %s: model reader says %s, the implementation %s (P=%d, start=%d, %d events)", i, ops[minInt(i, len(ops)-1)], trunc(strings.Join(ops, " "), 200), ma, mb, payload, pos, n),
			Replay: pqReplay{Config: e.Cfg, Log: tailLog(e.Log, 400), Mode: "reader-k1"}})
	}
}

// pqAckChecks: the ACK hook of the queue campaigns: page decisions vs. the Coq model, and the persisted read
// position: parsing the real page chain from it must give exactly the un-ACKed events
func pqAckChecks(rep *Report, m *model.Client) func(e *pqengine.Engine, n int, before, after pqengine.ChainState) {
	k1 := pqAckK1(rep, m)
	return func(e *pqengine.Engine, n int, before, after pqengine.ChainState) {
		k1(e, n, before, after)
		pqStreamK1(rep, m, e, fmt.Sprintf("after ACK(%d)", n))
	}
}

// K1: which pages an ACK frees and where the new head is - the Coq model of collectFreePages (Model/PQAck.v,
// theorem ack_pages_spec) on the real page headers vs. what the implementation did (new head page, pages freed,
// new read id). Installed as the ACK hook of a queue engine.
func pqAckK1(rep *Report, m *model.Client) func(e *pqengine.Engine, n int, before, after pqengine.ChainState) {
	return func(e *pqengine.Engine, n int, before, after pqengine.ChainState) {
		if len(before.Pages) == 0 {
			return
		}
		var ps []string
		var id0 uint64
		have := false
		for k, pg := range before.Pages {
			if pg.Off == 0 {
				continue
			}
			if !have {
				id0, have = pg.First, true
			}
			cnt := pg.Last - pg.First + 1
			if cnt > 1<<20 {
				return
			}
			for i := uint64(0); i < cnt; i++ {
				ps = append(ps, fmt.Sprint(k))
			}
		}
		if !have {
			return
		}
		startID := before.HeadID
		if before.ReadPage != 0 {
			startID = before.ReadID
		}
		N := int(startID-id0) + n
		if N < 1 || N > len(ps) {
			return
		}
		T := len(before.Pages) - 1
		res := strings.Fields(m.Ask(fmt.Sprintf("ackpages [%s] %d %d", strings.Join(ps, ","), T, N)))
		rep.count("k1:ack-page-decisions", 1)
		if len(res) != 3 {
			return
		}
		var kept int
		fmt.Sscan(res[0], &kept)
		if kept > 0 {
			rep.count("k1:ack-page-decisions-freeing-pages", 1)
		}
		bad := ""
		switch {
		case res[1] != "0":
			bad = "the model takes the clean-all exit"
		case kept >= len(before.Pages):
			bad = "model keeps a page beyond the chain"
		case after.HeadPage != before.Pages[kept].ID:
			bad = fmt.Sprintf("new head page: implementation %d, model %d (chain index %d)", after.HeadPage, before.Pages[kept].ID, kept)
		case before.InUse-after.InUse != uint64(kept):
			bad = fmt.Sprintf("pages freed: implementation %d, model %d", before.InUse-after.InUse, kept)
		case after.ReadID != startID+uint64(n):
			bad = fmt.Sprintf("new read id: implementation %d, expected %d", after.ReadID, startID+uint64(n))
		}
		if bad != "" {
			rep.violate(Violation{Kind: "correspondence", Sig: "pq-ack/pages-freed-and-new-head",
				Detail: fmt.Sprintf("ACK(%d): %s; page headers before (id first last off): %v; root before head=%d/%d read=%d/%d tail=%d", n, bad, before.Pages, before.HeadPage, before.HeadID, before.ReadPage, before.ReadID, before.TailID),
				Replay: pqReplay{Config: e.Cfg, Log: tailLog(e.Log, 300), Mode: "ack-k1"}})
		}
	}
}

func minInt(a, b int) int {
	if a < b {
		return a
	}
	return b
}

// ---------------------------------------------------------------------------------------------
// C06: crash images of queue histories

type pqCrashReplay struct {
	Config   pqengine.Config `json:"config"`
	Ops      []pqengine.Op   `json:"ops"`
	Boundary int             `json:"boundary"`
	Keep     []int           `json:"keep_chunks"`
	Detail   string          `json:"detail"`
}

func pqCheckCrashImage(cfg pqengine.Config, events [][]byte, img []byte, cands []pqengine.Snap) (detail string) {
	defer func() {
		if r := recover(); r != nil {
			detail = fmt.Sprintf("PANIC while recovering the queue: %v", r)
		}
	}()
	// first find out how many events are pending in the recovered queue
	d := simdisk.FromImage("pqcrash", img)
	f, err := txfile.VerifOpen(d, txfile.Options{})
	if err != nil {
		return "reopening the crash image fails: " + err.Error()
	}
	del, err := pq.NewStandaloneDelegate(f)
	if err != nil {
		f.Close()
		return "queue delegate on the crash image fails: " + err.Error()
	}
	q, err := pq.New(del, pq.Settings{})
	if err != nil {
		f.Close()
		return "opening the queue on the crash image fails: " + err.Error()
	}
	pend, err := q.Pending()
	if err != nil {
		f.Close()
		return "Pending on the recovered queue fails: " + err.Error()
	}
	q.Close()
	f.Close()
	var pick *pqengine.Snap
	for i := range cands {
		if cands[i].Flushed-cands[i].Acked == pend {
			pick = &cands[i]
		}
	}
	if pick == nil {
		var ok []int
		for _, c := range cands {
			ok = append(ok, c.Flushed-c.Acked)
		}
		return fmt.Sprintf("the recovered queue holds %d events, allowed: %v", pend, ok)
	}
	// several candidates may have the same count (e.g. flush of k events + ack of k): try them all
	var first string
	for i := len(cands) - 1; i >= 0; i-- {
		c := cands[i]
		if c.Flushed-c.Acked != pend || c.Flushed > len(events) {
			continue
		}
		e, err := pqengine.Attach(cfg, simdisk.FromImage("pqcrash", img), events, c.Acked, c.Flushed)
		if err != nil {
			return "second open fails: " + err.Error()
		}
		e.Drain("recovered queue")
		// operational: append, flush, drain, ack
		e.Apply(pqengine.Op{Kind: "event", N: 700, Seed: 99})
		e.Apply(pqengine.Op{Kind: "flush"})
		e.Drain("after continuing")
		e.Apply(pqengine.Op{Kind: "ack", N: 2})
		e.CheckCounters("after continuing")
		e.Close()
		if len(e.Failures) == 0 {
			return ""
		}
		if first == "" {
			first = e.Failures[0]
		}
	}
	return fmt.Sprintf("recovered queue with %d events: %s", pend, first)
}

func pqCrashHistory(rep *Report, m *model.Client, cfg pqengine.Config, ops []pqengine.Op, hseed int64, tier string, only *pqCrashReplay) {
	e, err := pqengine.New(cfg)
	if err != nil {
		return
	}
	if only == nil {
		e.AckHook = pqAckChecks(rep, m)
	}
	for _, op := range ops {
		if e.Queue == nil {
			break
		}
		e.Apply(op)
	}
	if e.Queue != nil {
		e.Apply(pqengine.Op{Kind: "flush"})
		pqStreamK1(rep, m, e, "end of history")
	}
	snaps := append([]pqengine.Snap(nil), e.Snaps...)
	events := e.Events
	e.Close()
	rep.Traces++
	if len(e.Failures) > 0 {
		rep.violate(Violation{Kind: "oracle", Sig: "pq/" + failSig(e.Failures[0]), Detail: e.Failures[0] + " on " + cfg.String(),
			Replay: pqReplay{Config: cfg, Ops: ops, Failures: e.Failures, Seed: hseed}})
		return
	}
	log := e.Disk.LogCopy()
	ps := int(cfg.PageSize)
	// boundaries after the queue was created
	start := -1
	for i, op := range log {
		if op.Kind == simdisk.OpMarker && op.Tag == "pq-ready" {
			start = i + 1
			break
		}
	}
	if start < 0 {
		return
	}
	r := rand.New(rand.NewSource(hseed))
	var bounds []int
	for k := start; k <= len(log); k++ {
		if k == len(log) || log[k-1].Kind == simdisk.OpWrite || log[k-1].Kind == simdisk.OpSync || log[k-1].Kind == simdisk.OpTruncate {
			bounds = append(bounds, k)
		}
	}
	maxB := 25
	if tier == "thorough" {
		maxB = 100000
	}
	if len(bounds) > maxB {
		r.Shuffle(len(bounds), func(i, j int) { bounds[i], bounds[j] = bounds[j], bounds[i] })
		bounds = bounds[:maxB]
	}
	for _, k := range bounds {
		if only != nil && k != only.Boundary {
			continue
		}
		// candidates: the last snapshot at or before k, and the next one after k (operation in flight)
		var cands []pqengine.Snap
		for i, s := range snaps {
			if s.LogIndex <= k {
				cands = []pqengine.Snap{s}
				if i+1 < len(snaps) {
					cands = append(cands, snaps[i+1])
				}
			}
		}
		if len(cands) == 0 {
			continue
		}
		chunks := simdisk.Chunks(log, k, int64(ps))
		var pend []int
		for i, c := range chunks {
			if !c.Durable {
				pend = append(pend, i)
			}
		}
		var subsets [][]int
		if only != nil {
			subsets = [][]int{only.Keep}
		} else if len(pend) <= 3 {
			for mask := 0; mask < 1<<uint(len(pend)); mask++ {
				var keep []int
				for b, i := range pend {
					if mask&(1<<uint(b)) != 0 {
						keep = append(keep, i)
					}
				}
				subsets = append(subsets, keep)
			}
		} else {
			subsets = [][]int{nil, pend}
			nr := 4
			if tier == "thorough" {
				nr = 40
			}
			for q := 0; q < nr; q++ {
				var keep []int
				for _, i := range pend {
					if r.Intn(2) == 0 {
						keep = append(keep, i)
					}
				}
				subsets = append(subsets, keep)
			}
		}
		for _, keep := range subsets {
			km := map[int]bool{}
			for _, i := range keep {
				km[i] = true
			}
			img := simdisk.BuildImage(e.Disk.Init(), chunks, func(i int) bool { return km[i] }, -1, -1)
			rep.Evaluations++
			rep.count("crash-images", 1)
			rep.nontrivial(fmt.Sprintf("%d/%d/%v", hseed, k, keep))
			if detail := pqCheckCrashImage(cfg, events, img, cands); detail != "" {
				rep.violate(Violation{Kind: "oracle", Sig: "pq-crash/" + failSig(detail),
					Detail: fmt.Sprintf("crash at I/O boundary %d of %d (%d of %d pending chunks persisted) on %s: %s; allowed (flushed,acked): %v; history: %s",
						k, len(log), len(keep), len(pend), cfg, detail, cands, trunc(pqOpKinds(ops), 400)),
					Replay: pqCrashReplay{Config: cfg, Ops: ops, Boundary: k, Keep: keep, Detail: detail}})
			}
		}
	}
}

// ---------------------------------------------------------------------------------------------
// C12: space bound and full-file behaviour

func c12Cycle(rep *Report, cfg pqengine.Config, hseed int64, cycles int, tight bool, ackModel *model.Client) {
	r := rand.New(rand.NewSource(hseed))
	e, err := pqengine.New(cfg)
	if err != nil {
		return
	}
	payload := int(cfg.PageSize) - 28
	fullSeen := 0
	e.AfterOp = func(e *pqengine.Engine, op pqengine.Op, res string) {
		if op.Kind == "event" || op.Kind == "flush" || op.Kind == "ack" {
			e.CheckCounters("after " + op.String())
		}
	}
	if ackModel != nil {
		pqWriterK1Setup(rep, ackModel)(e) // the writer model follows every Write / Next / Flush, also the failing ones
		e.AckHook = pqAckChecks(rep, ackModel)
	}
	checkSpace := func(what string) {
		if e.File == nil {
			return
		}
		inuse := e.DataPagesInUse()
		framed, last, lastAcked := 0, 0, 0
		for i := e.Acked; i < e.Flushed; i++ {
			framed += len(e.Events[i]) + 7
		}
		if e.Flushed > 0 {
			last = len(e.Events[e.Flushed-1]) + 7
		}
		if e.Acked > 0 {
			lastAcked = len(e.Events[e.Acked-1]) + 7
		}
		pagesOf := func(b int) int { return (b + payload - 1) / payload }
		// queue header page + pages of the un-ACKed events (starting somewhere inside a page) + the pages
		// of the last ACKed event (kept while the first un-ACKed event starts on a later page) + the pages
		// of the most recent event + 2: a constant that does not depend on the traffic so far
		bound := 1 + pagesOf(framed) + 1 + pagesOf(lastAcked) + pagesOf(last) + 2
		rep.count("c12:space-checks", 1)
		if inuse > bound {
			e.Fail("%s: the queue file holds %d data pages; un-ACKed events need %d framed bytes (%d events); bound %d pages", what, inuse, framed, e.Flushed-e.Acked, bound)
		}
	}
	for c := 0; c < cycles && e.Queue != nil; c++ {
		// produce until the file reports full (or a few hundred events on unbounded files)
		for i := 0; i < 400 && e.Queue != nil; i++ {
			n := 1 + r.Intn(3*int(cfg.PageSize))
			if r.Intn(4) == 0 {
				n = 1 + r.Intn(64)
			}
			if tight && r.Intn(2) == 0 {
				// an event that ends within a few bytes of the end of the write buffer: the implicit flush
				// happens in Next (not in Write)
				if _, avail, _, _ := pq.VerifWriterState(e.W); avail > 12 {
					n = avail - r.Intn(10)
					rep.count("c12:events-ending-at-the-buffer-end", 1)
				}
			}
			res := e.Apply(pqengine.Op{Kind: "event", N: n, Seed: c*1000 + i})
			if res == "oom" {
				fullSeen++
				break
			}
			if r.Intn(5) == 0 {
				if e.Apply(pqengine.Op{Kind: "flush"}) == "oom" {
					fullSeen++
					break
				}
			}
		}
		// reading and ACK work on the full file
		e.Apply(pqengine.Op{Kind: "rbegin"})
		e.Apply(pqengine.Op{Kind: "readall"})
		e.Apply(pqengine.Op{Kind: "rdone"})
		k := e.ReadPos - e.Acked
		if k > 0 {
			part := 1 + r.Intn(k)
			e.Apply(pqengine.Op{Kind: "ack", N: part})
			checkSpace("after a partial ACK")
			e.Apply(pqengine.Op{Kind: "ack", N: k})
			checkSpace("after ACKing everything that was read")
		}
		e.CheckCounters("cycle end")
		// the events buffered while the file was full are flushed now and delivered in order
		if res := e.Apply(pqengine.Op{Kind: "flush"}); res != "" && res != "oom" {
			e.Fail("flush after draining failed: %s", res)
		}
	}
	if e.Queue != nil {
		e.Apply(pqengine.Op{Kind: "flush"})
		e.Drain("final drain")
		e.Apply(pqengine.Op{Kind: "ack", N: 1 << 30})
		checkSpace("after the final ACK of everything")
		e.CheckCounters("final")
	}
	e.Close()
	rep.Evaluations++
	rep.Traces++
	rep.count("c12:full-errors-seen", fullSeen)
	rep.count("c12:events", len(e.Events))
	rep.nontrivial(fmt.Sprintf("%s/%d/%d", cfg, hseed%1000, len(e.Events)))
	if len(e.Failures) > 0 {
		rep.violate(Violation{Kind: "oracle", Sig: "pq-space/" + failSig(e.Failures[0]),
			Detail: e.Failures[0] + " on " + cfg.String(),
			Replay: pqReplay{Config: cfg, Failures: e.Failures, Log: tailLog(e.Log, 2000), Seed: hseed, Mode: fmt.Sprintf("c12 cycles=%d tight=%v", cycles, tight)}})
	}
}

func tailLog(l []string, n int) []string {
	if len(l) > n {
		return l[len(l)-n:]
	}
	return l
}

// ---------------------------------------------------------------------------------------------
// C13: producer and consumer in two goroutines

func pqConcurrent(seed int64, cfg pqengine.Config, nEvents int) []string {
	var mu sync.Mutex
	var fails []string
	fail := func(f string, a ...interface{}) {
		mu.Lock()
		fails = append(fails, fmt.Sprintf(f, a...))
		mu.Unlock()
	}
	d := simdisk.New("pqc")
	f, err := txfile.VerifOpen(d, txfile.Options{PageSize: cfg.PageSize, MaxSize: cfg.MaxSize})
	if err != nil {
		return []string{"open failed"}
	}
	del, err := pq.NewStandaloneDelegate(f)
	if err != nil {
		return []string{"delegate failed"}
	}
	var flushed, acked int64
	q, err := pq.New(del, pq.Settings{WriteBuffer: cfg.WriteBuffer,
		Flushed: func(n uint) { atomic.AddInt64(&flushed, int64(n)) },
		ACKed:   func(ev, pages uint) { atomic.AddInt64(&acked, int64(ev)) }})
	if err != nil {
		return []string{"queue failed"}
	}
	sizes := make([]int, nEvents)
	rs := rand.New(rand.NewSource(seed))
	for i := range sizes {
		sizes[i] = 1 + rs.Intn(3*int(cfg.PageSize))
		if rs.Intn(4) == 0 {
			sizes[i] = 1 + rs.Intn(40)
		}
		if seed%5 == 2 && rs.Intn(8) == 0 {
			sizes[i] = 0 // an event without contents (Next without Write)
		}
		if cfg.MaxSize != 0 && cfg.MaxSize <= 64*uint64(cfg.PageSize) && rs.Intn(3) == 0 {
			// small bounded file: events that (nearly) fill the write buffer, so that the flush inside Next is the one that
			// meets the full file
			wb := int(cfg.WriteBuffer)
			if wb < 5*int(cfg.PageSize) {
				wb = 5 * int(cfg.PageSize)
			}
			sizes[i] = wb - 200 + rs.Intn(400)
		}
	}
	var produced int64
	var wg sync.WaitGroup
	wg.Add(2)
	go func() { // producer
		defer wg.Done()
		defer func() {
			if r := recover(); r != nil {
				fail("producer panicked: %v", r)
			}
		}()
		r := rand.New(rand.NewSource(seed + 1))
		w, err := q.Writer()
		if err != nil {
			fail("Writer: %v", err)
			return
		}
		for i := 0; i < nEvents; i++ {
			b := pqengine.Content(i, 7, sizes[i])
			for len(b) > 0 {
				k := len(b)
				if r.Intn(3) == 0 {
					k = 1 + r.Intn(len(b))
				}
				// a full file is back-pressure: a refused Write has appended nothing and is repeated once the consumer
				// has made room; an event is complete after Next also when the flush inside Next failed
				for tries := 0; ; tries++ {
					_, err := w.Write(b[:k])
					if err == nil {
						break
					}
					if !pqengine.IsFull(err) || tries > 20000 {
						fail("Write: %v", err)
						return
					}
					time.Sleep(100 * time.Microsecond)
				}
				b = b[k:]
			}
			if err := w.Next(); err != nil && !pqengine.IsFull(err) {
				fail("Next: %v", err)
				return
			}
			atomic.StoreInt64(&produced, int64(i+1))
			if r.Intn(4) == 0 {
				if err := w.Flush(); err != nil && !pqengine.IsFull(err) {
					fail("Flush: %v", err)
					return
				}
			}
		}
		for tries := 0; ; tries++ {
			err := w.Flush()
			if err == nil {
				break
			}
			if !pqengine.IsFull(err) || tries > 20000 {
				fail("final Flush: %v", err)
				break
			}
			time.Sleep(100 * time.Microsecond)
		}
	}()
	go func() { // consumer
		defer wg.Done()
		defer func() {
			if r := recover(); r != nil {
				fail("consumer panicked: %v", r)
			}
		}()
		r := rand.New(rand.NewSource(seed + 2))
		rd := q.Reader()
		consumed, ackd := 0, 0
		deadline := time.Now().Add(40 * time.Second)
		for consumed < nEvents && time.Now().Before(deadline) {
			if err := rd.Begin(); err != nil {
				fail("Begin: %v", err)
				return
			}
			// Next reports 0 for an event without contents and at the end of the queue alike: the number of events the
			// read transaction can see tells them apart
			avail, aerr := rd.Available()
			if aerr != nil {
				fail("Available: %v", aerr)
				rd.Done()
				return
			}
			seen := uint(0)
			for {
				sz, err := rd.Next()
				if err != nil {
					fail("Reader.Next: %v", err)
					rd.Done()
					return
				}
				if sz == 0 {
					if seen < avail && consumed < nEvents && sizes[consumed] == 0 {
						seen++
						consumed++
						continue
					}
					if seen < avail {
						fail("event #%d: the reader reports the end of the queue (or an empty event) although %d of the %d visible events were delivered and the event has %d bytes", consumed, seen, avail, sizes[minInt(consumed, nEvents-1)])
						rd.Done()
						return
					}
					break
				}
				seen++
				if consumed >= nEvents {
					fail("the consumer received more events than were produced")
					rd.Done()
					return
				}
				if p := int(atomic.LoadInt64(&produced)); consumed >= p+1 {
					fail("the consumer received event #%d before the producer completed it (produced %d)", consumed, p)
				}
				if sz != sizes[consumed] {
					fail("event #%d: size %d, written %d", consumed, sz, sizes[consumed])
					rd.Done()
					return
				}
				if r.Intn(8) == 0 {
					// the consumer abandons this event (not read at all, or only a prefix): the following Next skips
					// the rest of it - also when it is the newest event the reader knows of
					if part := sz / 2; part > 0 && r.Intn(2) == 0 {
						pb := make([]byte, part)
						if k, err := rd.Read(pb); err != nil || k != part || !bytes.Equal(pb, pqengine.Content(consumed, 7, sz)[:part]) {
							fail("event #%d: prefix of %d bytes differs from what was written (%d read, %v)", consumed, part, k, err)
							rd.Done()
							return
						}
					}
					consumed++
					continue
				}
				buf := make([]byte, sz)
				got := 0
				for got < sz {
					k, err := rd.Read(buf[got:])
					if err != nil {
						fail("Read: %v", err)
						rd.Done()
						return
					}
					if k == 0 {
						break
					}
					got += k
				}
				if got != sz || !bytes.Equal(buf, pqengine.Content(consumed, 7, sz)) {
					fail("event #%d: content differs from what was written (%d of %d bytes read)", consumed, got, sz)
					rd.Done()
					return
				}
				consumed++
				if r.Intn(6) == 0 {
					break
				}
			}
			rd.Done()
			if k := consumed - ackd; k > 0 && r.Intn(2) == 0 {
				n := 1 + r.Intn(k)
				if err := q.ACK(uint(n)); err != nil {
					fail("ACK(%d) with %d consumed un-ACKed events: %v", n, k, err)
					return
				}
				ackd += n
			}
			if consumed >= int(atomic.LoadInt64(&flushed)) {
				time.Sleep(100 * time.Microsecond)
			}
		}
		if consumed < nEvents {
			fail("the consumer received only %d of %d events before the deadline", consumed, nEvents)
		}
		if k := consumed - ackd; k > 0 {
			if err := q.ACK(uint(k)); err != nil {
				fail("final ACK: %v", err)
			}
		}
	}()
	if !watchdog(25*time.Second, wg.Wait) {
		s, p, rsv := txfile.VerifLockState(f)
		fail("producer / consumer do not finish (deadlock?); lock state (%s)", lkString(s, p, rsv))
		return fails
	}
	if p, err := q.Pending(); err != nil || p != 0 {
		fail("after everything was consumed and ACKed Pending() = %d (%v)", p, err)
	}
	q.Close()
	f.Close()
	mu.Lock()
	defer mu.Unlock()
	return fails
}

// pqHandover: the consumer ends a read transaction and begins the next one while a flush of the producer is
// waiting for it (the commit holds the pending lock, blocked by the reader). The new read transaction may only
// start after that commit: it sees everything that was flushed, and every page the new queue header links.
func pqHandover(seed int64, cfg pqengine.Config, rounds int) []string {
	var fails []string
	fail := func(f string, a ...interface{}) { fails = append(fails, fmt.Sprintf(f, a...)) }
	d := simdisk.New("pqh")
	f, err := txfile.VerifOpen(d, txfile.Options{PageSize: cfg.PageSize, MaxSize: cfg.MaxSize})
	if err != nil {
		return []string{"open failed"}
	}
	del, err := pq.NewStandaloneDelegate(f)
	if err != nil {
		return []string{"delegate failed"}
	}
	q, err := pq.New(del, pq.Settings{WriteBuffer: cfg.WriteBuffer})
	if err != nil {
		return []string{"queue failed"}
	}
	w, err := q.Writer()
	if err != nil {
		return []string{"writer failed"}
	}
	rs := rand.New(rand.NewSource(seed))
	rd := q.Reader()
	total, consumed := 0, 0
	readAll := func(round int) bool {
		for {
			sz, err := rd.Next()
			if err != nil {
				fail("round %d: Reader.Next after %d of %d events: %v", round, consumed, total, err)
				return false
			}
			if sz == 0 {
				return true
			}
			buf := make([]byte, sz)
			got := 0
			for got < sz {
				k, err := rd.Read(buf[got:])
				if err != nil {
					fail("round %d: Read of event #%d: %v", round, consumed, err)
					return false
				}
				if k == 0 {
					break
				}
				got += k
			}
			if got != sz || !bytes.Equal(buf, pqengine.Content(consumed, 9, sz)) {
				fail("round %d: event #%d differs from what was written", round, consumed)
				return false
			}
			consumed++
		}
	}
	for round := 0; round < rounds && len(fails) == 0; round++ {
		if err := rd.Begin(); err != nil {
			fail("Begin: %v", err)
			break
		}
		// the producer writes events that need new pages and flushes: the commit has to wait for the reader
		n := 1 + rs.Intn(3)
		flushErr := make(chan error, 1)
		go func(first, n int) {
			for i := 0; i < n; i++ {
				b := pqengine.Content(first+i, 9, 1+rs.Intn(2*int(cfg.PageSize)))
				if _, err := w.Write(b); err != nil {
					flushErr <- err
					return
				}
				if err := w.Next(); err != nil {
					flushErr <- err
					return
				}
			}
			flushErr <- w.Flush()
		}(total, n)
		pendingSeen := false
		for t0 := time.Now(); time.Since(t0) < 2*time.Second; {
			if _, pend, _ := txfile.VerifLockState(f); pend {
				pendingSeen = true
				break
			}
			time.Sleep(20 * time.Microsecond)
		}
		if !pendingSeen {
			// the commit never got as far as waiting for the reader: no hand-over in this round
			rd.Done()
			if err := <-flushErr; err != nil {
				fail("round %d: producer: %v", round, err)
			}
			total += n
			continue
		}
		// hand over: end this read transaction, begin the next one at once
		rd.Done()
		if err := rd.Begin(); err != nil {
			fail("round %d: Begin after Done: %v", round, err)
			break
		}
		select {
		case err := <-flushErr:
			if err != nil {
				fail("round %d: producer: %v", round, err)
			}
		case <-time.After(20 * time.Second):
			s, p, rsv := txfile.VerifLockState(f)
			fail("round %d: the flush does not finish; lock state (%s)", round, lkString(s, p, rsv))
			return fails
		}
		total += n
		ok := readAll(round)
		rd.Done()
		if !ok {
			break
		}
		if pendingSeen && consumed != total {
			// the read transaction began after the commit (it had to wait for the pending lock): nothing may be missing
			// -- unless it was begun before the flush finished; then the rest arrives in the next transaction
			if err := rd.Begin(); err == nil {
				readAll(round)
				rd.Done()
			}
			if consumed != total {
				fail("round %d: %d of %d flushed events delivered", round, consumed, total)
			}
		}
	}
	if len(fails) == 0 && consumed > 0 {
		if err := q.ACK(uint(consumed)); err != nil {
			fail("final ACK(%d): %v", consumed, err)
		}
	}
	q.Close()
	f.Close()
	return fails
}

// c12FillLevels: a fresh queue is filled by ONE flush to every fill level around "data area completely used, meta
// area still minimal"; then every event is read and ACKed one by one (ACKs that free no page, ACKs that free one),
// an event that did not fit is flushed afterwards, and the queue is reopened and used again.
func c12FillLevels(rep *Report) {
	for _, c := range []struct{ ps, pages, ev int }{{4096, 16, 1000}, {1024, 64, 250}, {4096, 17, 3000}} {
		perPage := (c.ps - 28) / (c.ev + 4)
		lo := (c.pages-8)*perPage - 2
		for k := lo; k <= (c.pages-1)*perPage+2; k++ {
			func() {
				d := simdisk.New("fill")
				f, err := txfile.VerifOpen(d, txfile.Options{PageSize: uint32(c.ps), MaxSize: uint64(c.pages * c.ps)})
				if err != nil {
					return
				}
				defer f.Close()
				del, err := pq.NewStandaloneDelegate(f)
				if err != nil {
					return
				}
				q, err := pq.New(del, pq.Settings{WriteBuffer: uint(2 * c.pages * c.ps)})
				if err != nil {
					return
				}
				defer q.Close()
				w, _ := q.Writer()
				for i := 0; i < k; i++ {
					w.Write(pqengine.Content(i, 3, c.ev))
					w.Next()
				}
				rep.Evaluations++
				if err := w.Flush(); err != nil {
					rep.count("fill-levels:first-flush-does-not-fit", 1)
					return
				}
				rep.count("fill-levels:runs", 1)
				rep.nontrivial(fmt.Sprintf("fill/%d/%d/%d", c.ps, c.pages, k))
				fail := func(sig, format string, a ...interface{}) {
					rep.violate(Violation{Kind: "oracle", Sig: "fill-levels/" + sig,
						Detail: fmt.Sprintf("file of %d pages of %d bytes, %d events of %d bytes in one flush: ", c.pages, c.ps, k, c.ev) + fmt.Sprintf(format, a...),
						Replay: map[string]interface{}{"scenario": "fill-levels", "page_size": c.ps, "pages": c.pages, "events": k, "event_size": c.ev}})
				}
				// one more event that (probably) does not fit any more
				w.Write(pqengine.Content(k, 3, c.ev))
				w.Next()
				extraFlushed := w.Flush() == nil
				rd := q.Reader()
				for i := 0; i < k; i++ {
					if err := rd.Begin(); err != nil {
						fail("begin", "Reader.Begin before event %d: %v", i, err)
						return
					}
					sz, err := rd.Next()
					if err != nil || sz != c.ev {
						rd.Done()
						fail("next", "Reader.Next for event %d: size %d, %v", i, sz, err)
						return
					}
					buf := make([]byte, sz)
					if n, err := rd.Read(buf); err != nil || n != sz || !bytes.Equal(buf, pqengine.Content(i, 3, c.ev)) {
						rd.Done()
						fail("read", "event %d read back differs (%d bytes, %v)", i, n, err)
						return
					}
					rd.Done()
					if err := q.ACK(1); err != nil {
						fail("ack-on-a-full-file", "ACK(1) of event %d fails: %v", i, err)
						return
					}
				}
				if !extraFlushed {
					if err := w.Flush(); err != nil {
						fail("flush-after-drain", "after everything was ACKed the buffered event still can not be flushed: %v", err)
						return
					}
				}
				if p, err := q.Pending(); err != nil || p != 1 {
					fail("pending", "Pending() = %d (%v), expected the one event flushed last", p, err)
				}
			}()
		}
	}
}

// c12DrainThenFlush: the producer writes until the queue reports the file full (complete events stay in the write
// buffer), the consumer reads and ACKs everything that was flushed; then the buffered events must be flushable.
func c12DrainThenFlush(rep *Report) {
	for _, c := range []struct{ ps, pages, wbuf, ev int }{{4096, 16, 16 * 1024, 5000}, {4096, 32, 16 * 1024, 5000}, {1024, 64, 8 * 1024, 700}, {4096, 24, 32 * 1024, 9000}} {
		func() {
			d := simdisk.New("drain")
			f, err := txfile.VerifOpen(d, txfile.Options{PageSize: uint32(c.ps), MaxSize: uint64(c.pages * c.ps)})
			if err != nil {
				return
			}
			defer f.Close()
			del, err := pq.NewStandaloneDelegate(f)
			if err != nil {
				return
			}
			var flushed int64
			q, err := pq.New(del, pq.Settings{WriteBuffer: uint(c.wbuf), Flushed: func(n uint) { atomic.AddInt64(&flushed, int64(n)) }})
			if err != nil {
				return
			}
			defer q.Close()
			w, _ := q.Writer()
			rep.Evaluations++
			rep.count("drain-then-flush:runs", 1)
			rep.nontrivial(fmt.Sprintf("drain/%d/%d/%d/%d", c.ps, c.pages, c.wbuf, c.ev))
			fail := func(sig, format string, a ...interface{}) {
				rep.violate(Violation{Kind: "oracle", Sig: "drain-then-flush/" + sig,
					Detail: fmt.Sprintf("file of %d pages of %d bytes, write buffer %d, events of %d bytes: ", c.pages, c.ps, c.wbuf, c.ev) + fmt.Sprintf(format, a...),
					Replay: map[string]interface{}{"scenario": "drain-then-flush", "page_size": c.ps, "pages": c.pages, "write_buffer": c.wbuf, "event_size": c.ev}})
			}
			for cycle := 0; cycle < 3; cycle++ {
				written := 0
				for ; written < 10000; written++ {
					if _, err := w.Write(pqengine.Content(written, 5, c.ev)); err != nil {
						break
					}
					if err := w.Next(); err != nil {
						written++
						break
					}
				}
				rd := q.Reader()
				n := int(atomic.LoadInt64(&flushed))
				pend, _ := q.Pending()
				for i := 0; i < pend; i++ {
					if err := rd.Begin(); err != nil {
						fail("begin", "cycle %d: Reader.Begin: %v", cycle, err)
						return
					}
					sz, err := rd.Next()
					if err != nil || sz == 0 {
						rd.Done()
						fail("next", "cycle %d: Reader.Next for pending event %d of %d: size %d, %v", cycle, i, pend, sz, err)
						return
					}
					rd.Done()
					if err := q.ACK(1); err != nil {
						fail("ack-on-a-full-file", "cycle %d: ACK(1): %v", cycle, err)
						return
					}
				}
				_ = n
				// everything that was on disk is ACKed: the space is free, the buffered events must go out now
				if err := w.Flush(); err != nil {
					st := txfile.VerifSnapshot(f)
					fail("starved-after-a-complete-drain", "cycle %d: every flushed event is ACKed (Pending 0), but the buffered events can not be flushed: %v (meta area %d of %d pages, %d free data pages)",
						cycle, err, st.MetaTotal, st.MaxPages, st.DataAvail)
					return
				}
			}
		}()
	}
}

// c12FullFileTailRewrite: the file (shared with an application that holds every page the queue does not) is full;
// the producer appends events that fit into the already allocated tail page - ending exactly at the end of the page,
// a few bytes before it, or in the middle - and flushes: the flush needs no new queue page, only room for the
// rewritten tail page, and fails. It must fail with an error (the writer model: a flush that fails after the
// allocation step takes back the ids it assigned - here none), the events stay buffered, and once the application
// releases its pages a flush succeeds and everything is delivered.
func c12FullFileTailRewrite(rep *Report, m *model.Client) {
	for _, ps := range []int{1024, 4096} {
		payload := ps - 28
		for v, rest := range []int{0, 2, 3, 4, 40} { // bytes left in the tail page after the second event
			for keep := 0; keep <= 1; keep++ {
				first := 100
				second := payload - (4 + first) - 4 - rest
				cfg := pqengine.Config{PageSize: uint32(ps), MaxSize: uint64(64 * ps), WriteBuffer: 0}
				ops := []pqengine.Op{{Kind: "event", N: first, Seed: 1}, {Kind: "flush"}, {Kind: "appfill", N: keep},
					{Kind: "event", N: second, Seed: 2}, {Kind: "flush"}, {Kind: "event", N: 7, Seed: 3}, {Kind: "flush"},
					{Kind: "apprelease"}, {Kind: "flush"}, {Kind: "event", N: 9, Seed: 4}, {Kind: "flush"}}
				runPQHistory(rep, cfg, ops, int64(7000+ps+10*v+keep), "c12-tail", pqWriterK1Setup(rep, m), nil)
				rep.count("scenario:full-shared-file/flush-that-only-rewrites-the-tail-page", 1)
			}
		}
	}
}

// c12FullFileAckThenFailedFlush: the file (shared with an application) is completely full; an ACK needs the overflow
// area (its pages lie behind the size limit); the producer's next flush still finds the file full and is rolled back;
// the queue is closed and opened again: everything that was flushed and not ACKed is still there (seeded change
// C12n: the rollback truncates the file to the data end marker and cuts the ACK's pages off).
func c12FullFileAckThenFailedFlush(rep *Report, m *model.Client) {
	for i := 0; i < 6; i++ {
		ps := []int{1024, 4096}[i%2]
		cfg := pqengine.Config{PageSize: uint32(ps), MaxSize: uint64(64 * ps), WriteBuffer: 0}
		ops := []pqengine.Op{{Kind: "event", N: ps - 100, Seed: 1}, {Kind: "event", N: ps - 100, Seed: 2}, {Kind: "flush"},
			{Kind: "appfill", N: 4 + i/2}}
		for k := 0; k < 10; k++ {
			ops = append(ops, pqengine.Op{Kind: "event", N: ps - 100, Seed: 3 + k}, pqengine.Op{Kind: "flush"})
		}
		ops = append(ops, pqengine.Op{Kind: "ack", N: 1}, pqengine.Op{Kind: "event", N: 2 * ps, Seed: 20}, pqengine.Op{Kind: "flush"},
			pqengine.Op{Kind: "ack", N: 1}, pqengine.Op{Kind: "flush"},
			pqengine.Op{Kind: "reopen"}, pqengine.Op{Kind: "apprelease"}, pqengine.Op{Kind: "flush"}, pqengine.Op{Kind: "event", N: 9, Seed: 21}, pqengine.Op{Kind: "flush"})
		runPQHistory(rep, cfg, ops, int64(7200+i), "c12-ack-full", nil, nil)
		rep.count("scenario:full-shared-file/ack-then-failed-flush-then-reopen", 1)
	}
}

func runPQStress(rep *Report, r *rand.Rand, n int) {
	// directed: reader hand-over under a pending commit
	for i := 0; i < 3+n/20; i++ {
		if rep.outOfTime() {
			break
		}
		seed := r.Int63()
		cfg := pqConfigs()[i%len(pqConfigs())]
		cfg.MaxSize = 0             // the file keeps growing: every flush links pages past the previous end of the file
		cfg.WriteBuffer = 64 * 1024 // one commit per round: only the explicit Flush writes to the file
		var fails []string
		if !watchdog(60*time.Second, func() { fails = pqHandover(seed, cfg, 25) }) {
			fails = []string{"reader hand-over scenario does not finish"}
		}
		rep.Evaluations++
		rep.count("pq-handover-runs", 1)
		rep.nontrivial(fmt.Sprintf("pqhandover/%s/%d", cfg, seed%97))
		if len(fails) > 0 {
			rep.violate(Violation{Kind: "oracle", Sig: "pq-handover/" + failSig(fails[0]),
				Detail: fmt.Sprintf("consumer ends a read transaction and begins the next while a flush is waiting for it (%s, seed %d): %s", cfg, seed, fails[0]),
				Replay: map[string]interface{}{"seed": seed, "config": cfg, "scenario": "handover", "failures": fails}})
			break
		}
	}

	hung := 0
	cfgs := pqConfigs()
	for i := 0; i < n; i++ {
		if rep.outOfTime() {
			break
		}
		seed := r.Int63()
		cfg := cfgs[r.Intn(len(cfgs))]
		ne := 20 + r.Intn(120)
		if i%4 == 3 {
			// a small bounded file: the producer runs into the full file again and again and goes on when the consumer
			// has ACKed (seeded change C13m: state left behind by a flush that fails inside Next)
			cfg = []pqengine.Config{{PageSize: 1024, MaxSize: 64 * 1024, WriteBuffer: 4096}, {PageSize: 1024, MaxSize: 80 * 1024, WriteBuffer: 0},
				{PageSize: 4096, MaxSize: 40 * 4096, WriteBuffer: 16 * 1024}}[(i/4)%3]
			rep.count("pq-stress-runs/small-bounded-file", 1)
		}
		fails := pqConcurrent(seed, cfg, ne)
		rep.Evaluations++
		rep.count("pq-stress-runs", 1)
		rep.nontrivial(fmt.Sprintf("pqstress/%s/%d/%d", cfg, ne, seed%97))
		if len(fails) > 0 {
			rep.violate(Violation{Kind: "oracle", Sig: "pq-concurrent/" + failSig(fails[0]),
				Detail: fmt.Sprintf("producer/consumer stress (%s, %d events, seed %d): %s", cfg, ne, seed, fails[0]),
				Replay: map[string]interface{}{"seed": seed, "config": cfg, "events": ne, "failures": fails}})
			// goroutines that are stuck stay stuck: further runs would only wait for their watchdogs
			for _, fl := range fails {
				if strings.Contains(fl, "do not finish") || strings.Contains(fl, "before the deadline") {
					if hung++; hung >= 2 {
						rep.count("pq-stress-stopped-after-hangs", 1)
						return
					}
					break
				}
			}
		}
	}
}

func init() {
	register("c06", func(args []string) int {
		f := parseFlags("c06", args)
		rep := newReport("C06", f)
		rep.Rule = "queue histories (events, flushes, reads, ACKs, reopen at random op boundaries with a full drain) on the simulated disk; every flush / ACK / implicit flush is bracketed by markers; crash images at I/O boundaries (25 sampled per history in quick, all in thorough) x subsets of the un-synced page chunks are reopened through the real open path + NewStandaloneDelegate + pq.New, the number of pending events must be the one before or after the operation in flight, the drained events must be byte-identical to events [acked, flushed), then the queue is continued (append, flush, drain, ACK, counters); K1: the model reader on the real page chain; plus fill / drain cycles on small bounded files (flushes that fail because the file is full, retries after ACKs): everything accepted is delivered byte-identical. Non-trivial: every distinct (history, boundary, subset)."
		m, err := model.Start()
		if err != nil {
			fmt.Fprintln(os.Stderr, err)
			return 2
		}
		defer m.Close()
		r := rand.New(rand.NewSource(f.seed))
		n := 30
		if f.tier == "thorough" {
			n = 500
		}
		if f.n > 0 {
			n = f.n
		}
		cfgs := pqConfigs()
		for i := 0; i < n; i++ {
			if rep.outOfTime() {
				break
			}
			hseed := r.Int63()
			hr := rand.New(rand.NewSource(hseed))
			cfg := cfgs[hr.Intn(len(cfgs))]
			prof := pqengine.Profile{Steps: 15 + hr.Intn(60), MaxEvent: 4 * int(cfg.PageSize), Boundary: true, Reopen: i%2 == 0, PageSize: int(cfg.PageSize), AckPct: 8}
			ops := pqengine.History(hr, prof)
			pqCrashHistory(rep, m, cfg, ops, hseed, f.tier, nil)
			if i < 2 {
				rep.sample(map[string]interface{}{"config": cfg.String(), "ops": trunc(pqOpKinds(ops), 400)})
			}
		}
		// flushed events also survive the file running full: fill / drain cycles on small bounded files (failed
		// implicit and explicit flushes, retries after ACKs); what was accepted is delivered byte-identical
		for i, cfg := range []pqengine.Config{
			{PageSize: 1024, MaxSize: 64 * 1024, WriteBuffer: 0}, {PageSize: 1024, MaxSize: 64 * 1024, WriteBuffer: 4096},
			{PageSize: 4096, MaxSize: 17 * 4096, WriteBuffer: 0}, {PageSize: 1024, MaxSize: 96 * 1024, WriteBuffer: 2048},
		} {
			c12Cycle(rep, cfg, r.Int63(), 5, i%2 == 1, m)
			rep.count("scenario:fill-drain-cycles-on-a-full-file", 1)
		}
		rep.ModelCalls = m.N
		return rep.finish(f)
	})
	register("c12", func(args []string) int {
		f := parseFlags("c12", args)
		rep := newReport("C12", f)
		rep.Rule = "directed: a fresh queue filled by one flush to every level around `data area completely used, meta area minimal`, then read and ACKed one event at a time; K1: every ACK decision (pages freed, new head page, new read id) vs. the Coq model of collectFreePages on the real page headers (theorem ack_pages_spec); fill-to-error / drain cycles on bounded files of 64-256 pages (and unbounded ones): events of 1 byte .. 3 pages (in every other run half of them sized to end within 10 bytes of the end of the write buffer, so that the implicit flush happens in Next) are appended until Write/Next/Flush reports the file full, then everything flushed is read and ACKed (partially, then completely), space accounting after every ACK: data pages held by the file <= 1 (queue header) + ceil(framed un-ACKed bytes / payload) + pages of the most recent event + 2; counters; the events buffered while the file was full must be flushed by a later call and delivered in order (slice-of-events oracle, final drain). Non-trivial: every run (distinct config, seed, traffic)."
		m, err := model.Start()
		if err != nil {
			fmt.Fprintln(os.Stderr, err)
			return 2
		}
		defer m.Close()
		if f.replay != "" {
			rp, err := loadPQReplay(f.replay)
			if err != nil {
				fmt.Fprintln(os.Stderr, err)
				return 2
			}
			if len(rp.Ops) > 0 {
				runPQHistory(rep, rp.Config, rp.Ops, rp.Seed, rp.Mode, pqWriterK1Setup(rep, m), nil)
			}
			return rep.finish(f)
		}
		r := rand.New(rand.NewSource(f.seed))
		n, cycles := 60, 8
		if f.tier == "thorough" {
			n, cycles = 300, 60
		}
		if f.n > 0 {
			n = f.n
		}
		cfgs := []pqengine.Config{
			{PageSize: 4096, MaxSize: 16 * 4096, WriteBuffer: 0}, {PageSize: 4096, MaxSize: 17 * 4096, WriteBuffer: 0},
			{PageSize: 4096, MaxSize: 23 * 4096, WriteBuffer: 32 * 1024}, {PageSize: 4096, MaxSize: 24 * 4096, WriteBuffer: 32 * 1024},
			{PageSize: 1024, MaxSize: 64 * 1024, WriteBuffer: 0}, {PageSize: 1024, MaxSize: 96 * 1024, WriteBuffer: 4096},
			{PageSize: 1024, MaxSize: 128 * 1024, WriteBuffer: 16 * 1024}, {PageSize: 4096, MaxSize: 512 * 1024, WriteBuffer: 0},
			{PageSize: 1024, MaxSize: 256 * 1024, WriteBuffer: 8192}, {PageSize: 1024, MaxSize: 0, WriteBuffer: 2048},
		}
		c12FillLevels(rep)
		c12DrainThenFlush(rep)
		c12FullFileTailRewrite(rep, m)
		c12FullFileAckThenFailedFlush(rep, m)
		for i := 0; i < n; i++ {
			if rep.outOfTime() {
				break
			}
			hseed := r.Int63()
			c12Cycle(rep, cfgs[i%len(cfgs)], hseed, cycles, (i/len(cfgs))%2 == 1, m)
			if i < 1 {
				rep.sample(map[string]interface{}{"config": cfgs[i%len(cfgs)].String(), "cycles": cycles})
			}
		}
		return rep.finish(f)
	})
	register("c13", func(args []string) int {
		f := parseFlags("c13", args)
		rep := newReport("C13", f)
		rep.Rule = "one producer goroutine (Write in random chunks / Next / Flush) and one consumer goroutine (Begin / Next / Read / Done / ACK of consumed events) on the same queue at the same time, 20-140 events of 1 byte .. 3 pages, 6 configurations: the consumer must receive exactly the produced sequence (sizes and bytes), never an event the producer has not completed, ACKs must succeed, nothing may hang (60 s watchdog confirmed by the lock hook), Pending() = 0 at the end; the same runs are repeated in the race-detector build. Non-trivial: distinct (config, event count, seed)."
		r := rand.New(rand.NewSource(f.seed))
		n := 40
		if f.tier == "thorough" {
			n = 1500
		}
		if f.n > 0 {
			n = f.n
		}
		runPQStress(rep, r, n)
		return rep.finish(f)
	})
	register("pqstress", func(args []string) int {
		f := parseFlags("pqstress", args)
		rep := newReport("pqstress", f)
		r := rand.New(rand.NewSource(f.seed + 17))
		n := 25
		if f.tier == "thorough" {
			n = 800
		}
		if f.n > 0 {
			n = f.n
		}
		runPQStress(rep, r, n)
		return rep.finish(f)
	})
	register("c17", func(args []string) int {
		f := parseFlags("c17", args)
		rep := newReport("C17", f)
		rep.Rule = "random producer/consumer/reopen histories (as C05; every 4th one on a queue whose header sits at an offset of a root page shared with a second queue); after EVERY operation Pending(), Active(), Reader.Available() (inside a read transaction) and the running totals of the Flushed / ACKed callbacks are compared with the event history of the slice-of-events model (flushed - acked, visible - consumed, totals); plus fill-to-error / drain cycles on bounded files (failing flushes that are retried). Non-trivial: distinct op statistics."
		if f.replay != "" {
			rp, err := loadPQReplay(f.replay)
			if err != nil {
				fmt.Fprintln(os.Stderr, err)
				return 2
			}
			runPQHistory(rep, rp.Config, rp.Ops, rp.Seed, rp.Mode, func(e *pqengine.Engine) {
				e.AfterOp = func(e *pqengine.Engine, op pqengine.Op, res string) { e.CheckCounters("after " + op.String()) }
			}, nil)
			return rep.finish(f)
		}
		m, err := model.Start()
		if err != nil {
			fmt.Fprintln(os.Stderr, err)
			return 2
		}
		defer m.Close()
		r := rand.New(rand.NewSource(f.seed))
		n := 200
		if f.tier == "thorough" {
			n = 4000
		}
		if f.n > 0 {
			n = f.n
		}
		cfgs := pqConfigs()
		for i := 0; i < n; i++ {
			if rep.outOfTime() {
				break
			}
			hseed := r.Int63()
			hr := rand.New(rand.NewSource(hseed))
			cfg := cfgs[hr.Intn(len(cfgs))]
			if i%4 == 3 {
				// the queue header at an offset inside a root page shared with a second queue (its header at offset 0,
				// 2 events): every queue counts its own history only
				cfg.RootOff = 64 * uintptr(2+i%9)
				rep.count("queue-header-at-an-offset-of-the-root-page", 1)
			}
			prof := pqengine.Profile{Steps: 20 + hr.Intn(100), MaxEvent: 3 * int(cfg.PageSize), Boundary: false, Reopen: true, PageSize: int(cfg.PageSize), AckPct: 8, Empty: i%3 == 1}
			ops := pqengine.History(hr, prof)
			checks := 0
			e := runPQHistory(rep, cfg, ops, hseed, "c17", func(e *pqengine.Engine) {
				pqWriterK1Setup(rep, m)(e)
				e.AfterOp = func(e *pqengine.Engine, op pqengine.Op, res string) {
					if op.Kind != "counters" {
						e.CheckCounters("after " + op.String())
						checks++
					}
				}
			}, nil)
			rep.count("counter-checks", checks)
			if e != nil {
				rep.nontrivial(fmt.Sprintf("%s/%v", cfg, e.Stats))
			}
			if i < 2 {
				rep.sample(map[string]interface{}{"config": cfg.String(), "ops": trunc(pqOpKinds(ops), 400)})
			}
		}
		// full files: flushes that fail with events buffered and are retried after the consumer ACKed
		// (counters and callback totals are compared after every event / flush / ACK inside c12Cycle)
		full := []pqengine.Config{{PageSize: 1024, MaxSize: 64 * 1024, WriteBuffer: 0}, {PageSize: 1024, MaxSize: 96 * 1024, WriteBuffer: 4096},
			{PageSize: 1024, MaxSize: 128 * 1024, WriteBuffer: 16 * 1024}}
		for i := 0; i < n/20+2; i++ {
			if rep.outOfTime() {
				break
			}
			c12Cycle(rep, full[i%len(full)], r.Int63(), 6, i%2 == 1, nil)
			rep.count("full-file-cycles", 1)
		}
		return rep.finish(f)
	})
}
