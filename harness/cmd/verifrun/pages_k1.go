package main

import (
	"encoding/binary"
	"fmt"
	"math/rand"
	"sort"
	"strings"

	txfile "github.com/elastic/go-txfile"

	"verifharness/engine"
	"verifharness/model"
)

// K1 for the linked meta page lists (write/read of free lists and of the overwrite mapping) and for
// recovery: the model's recover_image on a real file image vs. the state the implementation builds
// when it opens the same bytes.

func regionIDs(regs []txfile.VerifRegion) []uint64 {
	var out []uint64
	for _, r := range regs {
		for k := uint64(0); k < uint64(r.Count); k++ {
			out = append(out, r.ID+k)
		}
	}
	sort.Slice(out, func(i, j int) bool { return out[i] < out[j] })
	return out
}

func pagesK1(rep *Report, m *model.Client, r *rand.Rand, n int, malformed bool) {
	for i := 0; i < n; i++ {
		ps := uint(1024)
		// free lists: random region lists incl. big regions, spread over 1..4 pages
		mk := func(maxRegs int) []txfile.VerifRegion {
			regs := randRegions(r, 2, uint64(100+r.Intn(100000)), 1+r.Intn(maxRegs))
			return regs
		}
		ml, dl := mk(60), mk(200)
		if r.Intn(5) == 0 {
			ml = nil
		}
		need := txfile.VerifPredictFreelistPages(ps, ml, dl)
		npages := int(need)
		if r.Intn(4) == 0 && npages > 1 {
			npages-- // may be too few: the writer must report it (the prediction over-estimates, so it may still fit)
		}
		if r.Intn(4) == 0 {
			npages += r.Intn(3)
		}
		var to []txfile.VerifRegion
		base := uint64(200000 + r.Intn(1000))
		for k := 0; k < npages; k++ {
			to = append(to, txfile.VerifRegion{ID: base + uint64(2*k), Count: 1})
		}
		ids, pages, failed := txfile.VerifWriteFreeLists(to, ps, ml, dl)
		impl := "err"
		if !failed {
			parts := []string{"ok"}
			for k := range ids {
				parts = append(parts, fmt.Sprint(ids[k]), model.Hex(pages[k]))
			}
			impl = strings.Join(parts, " ")
			if len(ids) == 0 {
				impl = "ok "
			}
		}
		mod := m.Ask(fmt.Sprintf("writefl %d %s %s %s", ps, model.List(regionIDs(to)), flat(ml), flat(dl)))
		rep.Evaluations++
		rep.count("pages:writefl", 1)
		rep.nontrivial(fmt.Sprintf("writefl/%d/%d/%d", len(ml), len(dl), npages))
		if strings.TrimSpace(impl) != strings.TrimSpace(mod) {
			rep.violate(Violation{Kind: "correspondence", Sig: "pages/writeFreeLists",
				Detail: fmt.Sprintf("writeFreeLists(%d pages for %d+%d regions): impl=%s model=%s", npages, len(ml), len(dl), trunc(impl, 80), trunc(mod, 80)),
				Replay: map[string]interface{}{"to": to, "meta": ml, "data": dl}})
			continue
		}
		if failed {
			rep.count("pages:writefl-too-few-pages", 1)
			continue
		}
		// prediction soundness oracle: with the predicted number of pages the write must succeed
		if npages >= int(need) && failed {
			rep.violate(Violation{Kind: "oracle", Sig: "pages/prediction-too-small", Detail: "the predicted page count was not enough", Replay: map[string]interface{}{"meta": ml, "data": dl}})
		}
		// read back
		pm := map[uint64][]byte{}
		req := []string{}
		for k := range ids {
			pm[ids[k]] = pages[k]
			req = append(req, fmt.Sprint(ids[k]), model.Hex(pages[k]))
		}
		root := uint64(0)
		if len(ids) > 0 {
			root = ids[0]
		}
		rids, rml, rdl, out := txfile.VerifReadFreeList(pm, root)
		impl = out
		if out == "ok" {
			impl = fmt.Sprintf("ok %s %s %s", model.List(rids), flat(rml), flat(rdl))
		}
		mod = m.Ask(fmt.Sprintf("readfl %d %s", root, strings.Join(req, " ")))
		rep.count("pages:readfl", 1)
		if impl != mod {
			rep.violate(Violation{Kind: "correspondence", Sig: "pages/readFreeList",
				Detail: fmt.Sprintf("readFreeList: impl=%s model=%s", trunc(impl, 120), trunc(mod, 120)), Replay: map[string]interface{}{"meta": ml, "data": dl}})
		}
		// round trip oracle on the implementation
		if out == "ok" && (flat(rml) != flat(ml) || flat(rdl) != flat(dl)) {
			rep.violate(Violation{Kind: "oracle", Sig: "pages/freelist-roundtrip",
				Detail: fmt.Sprintf("free lists read back differ: meta %s vs %s", trunc(flat(rml), 80), trunc(flat(ml), 80)), Replay: map[string]interface{}{"meta": ml, "data": dl}})
		}

		// malformed stream: one page of the chain damaged (entry count beyond the page, garbage, truncated
		// overflow entry at the end of the page); both sides must answer the same, the implementation never panics
		if malformed && len(ids) > 0 {
			k := r.Intn(len(ids))
			dmg := append([]byte(nil), pages[k]...)
			kind := damagePage(r, dmg)
			pm2 := map[uint64][]byte{}
			req2 := []string{}
			for j := range ids {
				pg := pages[j]
				if j == k {
					pg = dmg
				}
				pm2[ids[j]] = pg
				req2 = append(req2, fmt.Sprint(ids[j]), model.Hex(pg))
			}
			rids, rml, rdl, out := txfile.VerifReadFreeList(pm2, root)
			impl = out
			if out == "ok" {
				impl = fmt.Sprintf("ok %s %s %s", model.List(rids), flat(rml), flat(rdl))
			}
			mod = m.Ask(fmt.Sprintf("readfl %d %s", root, strings.Join(req2, " ")))
			rep.count("pages:readfl-malformed/"+kind+"/"+firstWord(impl), 1)
			if out == "panic" {
				rep.violate(Violation{Kind: "oracle", Sig: "pages/readFreeList-panics", Detail: "readFreeList panics on a damaged page (" + kind + ")",
					Replay: map[string]interface{}{"meta": ml, "data": dl, "damage": kind, "page": model.Hex(dmg)}})
			} else if impl != mod {
				rep.violate(Violation{Kind: "correspondence", Sig: "pages/readFreeList-malformed",
					Detail: fmt.Sprintf("readFreeList on a damaged page (%s): impl=%s model=%s", kind, trunc(impl, 120), trunc(mod, 120)),
					Replay: map[string]interface{}{"meta": ml, "data": dl, "damage": kind, "page": model.Hex(dmg)}})
			}
		}

		// overwrite mapping
		nm := r.Intn(200)
		var keys, vals []uint64
		seen := map[uint64]bool{}
		for len(keys) < nm {
			k := uint64(2 + r.Intn(1<<20))
			if seen[k] {
				continue
			}
			seen[k] = true
			keys = append(keys, k)
			vals = append(vals, uint64(2+r.Intn(1<<30)))
		}
		perPage := (int(ps) - 12) / 14
		wp := (nm + perPage - 1) / perPage
		var wto []txfile.VerifRegion
		for k := 0; k < wp; k++ {
			wto = append(wto, txfile.VerifRegion{ID: base + 100 + uint64(k), Count: 1})
		}
		wids, wpages, wfailed := txfile.VerifWriteWAL(wto, ps, keys, vals)
		impl = "err"
		if !wfailed {
			parts := []string{"ok"}
			for k := range wids {
				parts = append(parts, fmt.Sprint(wids[k]), model.Hex(wpages[k]))
			}
			impl = strings.Join(parts, " ")
		}
		kv := make([]uint64, 0, 2*nm)
		for k := range keys {
			kv = append(kv, keys[k], vals[k])
		}
		mod = m.Ask(fmt.Sprintf("writewal %d %s %s", ps, model.List(regionIDs(wto)), model.List(kv)))
		rep.count("pages:writewal", 1)
		if strings.TrimSpace(impl) != strings.TrimSpace(mod) {
			rep.violate(Violation{Kind: "correspondence", Sig: "pages/writeWAL",
				Detail: fmt.Sprintf("writeWAL(%d entries): impl=%s model=%s", nm, trunc(impl, 80), trunc(mod, 80)), Replay: map[string]interface{}{"keys": keys, "vals": vals}})
			continue
		}
		if !wfailed && len(wids) > 0 {
			pm := map[uint64][]byte{}
			req := []string{}
			for k := range wids {
				pm[wids[k]] = wpages[k]
				req = append(req, fmt.Sprint(wids[k]), model.Hex(wpages[k]))
			}
			rids, mp, out := txfile.VerifReadWAL(pm, wids[0])
			impl = out
			if out == "ok" {
				ks := make([]uint64, 0, len(mp))
				for k := range mp {
					ks = append(ks, k)
				}
				sort.Slice(ks, func(a, b int) bool { return ks[a] < ks[b] })
				fl := make([]uint64, 0, 2*len(ks))
				for _, k := range ks {
					fl = append(fl, k, mp[k])
				}
				impl = fmt.Sprintf("ok %s %s", model.List(rids), model.List(fl))
				if len(mp) != nm {
					rep.violate(Violation{Kind: "oracle", Sig: "pages/wal-roundtrip", Detail: fmt.Sprintf("mapping read back has %d entries, wrote %d", len(mp), nm), Replay: map[string]interface{}{"keys": keys}})
				}
			}
			mod = m.Ask(fmt.Sprintf("readwal %d %s", wids[0], strings.Join(req, " ")))
			rep.count("pages:readwal", 1)
			if impl != mod {
				rep.violate(Violation{Kind: "correspondence", Sig: "pages/readWAL",
					Detail: fmt.Sprintf("readWAL: impl=%s model=%s", trunc(impl, 120), trunc(mod, 120)), Replay: map[string]interface{}{"keys": keys}})
			}
			// malformed stream
			if !malformed {
				continue
			}
			k := r.Intn(len(wids))
			dmg := append([]byte(nil), wpages[k]...)
			kind := damagePage(r, dmg)
			pm[wids[k]] = dmg
			req = req[:0]
			for j := range wids {
				req = append(req, fmt.Sprint(wids[j]), model.Hex(pm[wids[j]]))
			}
			rids, mp, out = txfile.VerifReadWAL(pm, wids[0])
			impl = out
			if out == "ok" {
				ks := make([]uint64, 0, len(mp))
				for k := range mp {
					ks = append(ks, k)
				}
				sort.Slice(ks, func(a, b int) bool { return ks[a] < ks[b] })
				fl := make([]uint64, 0, 2*len(ks))
				for _, k := range ks {
					fl = append(fl, k, mp[k])
				}
				impl = fmt.Sprintf("ok %s %s", model.List(rids), model.List(fl))
			}
			mod = m.Ask(fmt.Sprintf("readwal %d %s", wids[0], strings.Join(req, " ")))
			rep.count("pages:readwal-malformed/"+kind+"/"+firstWord(impl), 1)
			if out == "panic" {
				rep.violate(Violation{Kind: "oracle", Sig: "pages/readWAL-panics", Detail: "readWAL panics on a damaged page (" + kind + ")",
					Replay: map[string]interface{}{"keys": keys, "damage": kind, "page": model.Hex(dmg)}})
			} else if impl != mod {
				rep.violate(Violation{Kind: "correspondence", Sig: "pages/readWAL-malformed",
					Detail: fmt.Sprintf("readWAL on a damaged page (%s): impl=%s model=%s", kind, trunc(impl, 120), trunc(mod, 120)),
					Replay: map[string]interface{}{"keys": keys, "damage": kind, "page": model.Hex(dmg)}})
			}
		}
	}
}

// damagePage damages a list page (header: next u64, count u32) in place and names the damage.
func damagePage(r *rand.Rand, pg []byte) string {
	switch r.Intn(5) {
	case 0:
		binary.LittleEndian.PutUint32(pg[8:], 0xffffffff)
		return "count-max"
	case 1:
		binary.LittleEndian.PutUint32(pg[8:], binary.LittleEndian.Uint32(pg[8:])+uint32(1+r.Intn(200)))
		return "count-bigger"
	case 2:
		// as many 8-byte entries as fit exactly, the last one marked as carrying an extra 4-byte count
		n := (len(pg) - 12) / 8
		binary.LittleEndian.PutUint32(pg[8:], uint32(n))
		for i := 12; i < len(pg); i++ {
			pg[i] = 0xff
		}
		return "overflow-entry-at-page-end"
	case 3:
		for i := 8; i < len(pg); i++ {
			pg[i] = byte(r.Intn(256))
		}
		return "garbage-keep-next"
	default:
		for i := 0; i < 8; i++ {
			pg[i] = 0
		}
		binary.LittleEndian.PutUint32(pg[8:], uint32((len(pg)-12)/14+1+r.Intn(3)))
		return "count-just-over-capacity"
	}
}

// recoverString renders what the implementation recovered from an image like the model driver does.
func recoverString(f *txfile.File) string {
	s := txfile.VerifSnapshot(f)
	h := s.Hdr[s.MetaActive]
	ks := make([]uint64, 0, len(s.WalMapping))
	for k := range s.WalMapping {
		ks = append(ks, k)
	}
	sort.Slice(ks, func(a, b int) bool { return ks[a] < ks[b] })
	fl := make([]uint64, 0, 2*len(ks))
	for _, k := range ks {
		fl = append(fl, k, s.WalMapping[k])
	}
	return fmt.Sprintf("ok %d %d %d %d %d %d %d %s %s %s %s %s", s.MetaActive, h.Txid, h.Root, h.MaxSize,
		s.DataEnd, s.MetaEnd, s.MetaTotal, model.List(fl), model.List(regionIDs(s.WalMetaPages)),
		model.List(regionIDs(s.FreelistPages)), flat(s.MetaFree), flat(s.DataFree))
}

// recoverK1 compares the model's recover_image with a real open of the image of an engine's disk.
func recoverK1(rep *Report, m *model.Client, e *engine.Engine, what string) {
	if e.File == nil || e.Tx != nil {
		return
	}
	img := e.Disk.Snapshot()
	impl := recoverString(e.File)
	s := txfile.VerifSnapshot(e.File)
	mapped := s.MappedLen / int(s.PageSize)
	mod := m.Ask(fmt.Sprintf("recover %d %d %s", s.PageSize, mapped, model.Hex(img)))
	rep.count("recover-k1", 1)
	if impl != mod {
		rep.violate(Violation{Kind: "correspondence", Sig: "recover/" + what,
			Detail: fmt.Sprintf("recovery model differs from the open path (%s): impl=%s model=%s", what, trunc(impl, 300), trunc(mod, 300)),
			Replay: map[string]interface{}{"config": e.Cfg, "log": e.Log}})
	}
}
