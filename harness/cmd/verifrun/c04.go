package main

import (
	"fmt"
	txfile "github.com/elastic/go-txfile"
	"math/rand"
	"os"
	"strings"

	"verifharness/engine"
	"verifharness/gen"
	"verifharness/model"
)

func init() {
	register("k1alloc", func(args []string) int {
		f := parseFlags("k1alloc", args)
		rep := newReport("K1", f)
		m, err := model.Start()
		if err != nil {
			fmt.Fprintln(os.Stderr, err)
			return 2
		}
		defer m.Close()
		r := rand.New(rand.NewSource(f.seed))
		n := 300
		if f.n > 0 {
			n = f.n
		}
		allocK1(rep, m, r, n, n*3, n*3)
		rep.ModelCalls = m.N
		return rep.finish(f)
	})
	register("c04", func(args []string) int {
		f := parseFlags("c04", args)
		rep := newReport("C04", f)
		rep.Rule = "K1: random allocator scripts (begin / data alloc (also 20-220 pages) / contiguous alloc / free of fresh and of committed pages / overwrite-page alloc + free / meta alloc / commit / rollback; bounded, tiny and unbounded page limits, pre-existing fragmented free lists, regions of 250+ pages, committed overflow area) on the bare allocator vs. the extracted Coq model, full state compared after every operation; single free-list operations (both orders, unmerged lists) and the region codec. " +
			"Oracle: random file histories with the ownership map (every id returned by Alloc must be >= 2, not live in the committed state, not freed-but-committed, not a free-list / mapping / overwrite page, not a free page of the meta area, not handed out twice), the allocator partition check after every commit (free lists disjoint, below their end markers, no page in use inside a free list) and content re-verification; plus a directed family where the meta area grows out of the data free list. Non-trivial: scripts with >= 1 op executed, histories with a commit; distinct by content."
		m, err := model.Start()
		if err != nil {
			fmt.Fprintln(os.Stderr, err)
			return 2
		}
		defer m.Close()
		if f.replay != "" {
			rp, err := loadHistReplay(f.replay)
			if err != nil {
				fmt.Fprintln(os.Stderr, err)
				return 2
			}
			if len(rp.Ops) > 0 {
				runOracleHistory(rep, rp.Config, rp.Ops, rp.Seed, rp.Mode, nil, nil)
			}
			return rep.finish(f)
		}
		r := rand.New(rand.NewSource(f.seed))
		nS, nH := 400, 200
		if f.tier == "thorough" {
			nS, nH = 12000, 4000
		}
		allocK1(rep, m, r, nS, nS*2, nS)
		for i := 0; i < nH; i++ {
			hseed := r.Int63()
			hr := rand.New(rand.NewSource(hseed))
			cfg := gen.PickConfig(hr)
			prof := gen.DefaultProfile()
			prof.AbortPct = 35
			ops := gen.History(hr, prof)
			e := runOracleHistory(rep, cfg, ops, hseed, "", nil, nil)
			if e != nil && e.Stats["commit"] > e.Stats["err:commit"] {
				rep.nontrivial(fmt.Sprintf("%s/%v", cfg, e.Stats))
			}
		}
		// directed family: files without initial meta area; a contiguous run of data pages is freed, then
		// pages are overwritten: the meta area has to grow (also at commit time, when the new free-list pages
		// are allocated) and takes its pages out of the data free list
		for i := 0; i < nH/4; i++ {
			hseed := r.Int63()
			hr := rand.New(rand.NewSource(hseed))
			cfg := engine.Config{PageSize: 1024, MaxSize: []uint64{0, 128 * 1024, 64 * 1024}[hr.Intn(3)]}
			k := 8 + hr.Intn(16)
			ops := []engine.Op{{Kind: "begin"}, {Kind: "alloc", N: k}}
			for j := 0; j < k; j++ {
				ops = append(ops, engine.Op{Kind: "setfull", P: j, Seed: 1 + hr.Intn(1000)})
			}
			ops = append(ops, engine.Op{Kind: "commit"}, engine.Op{Kind: "begin"})
			at := 1 + hr.Intn(4)
			for j := 3 + hr.Intn(6); j > 0; j-- {
				ops = append(ops, engine.Op{Kind: "free", P: at}) // always the same index: a contiguous run
			}
			ops = append(ops, engine.Op{Kind: "commit"})
			for t := 1 + hr.Intn(3); t > 0; t-- {
				ops = append(ops, engine.Op{Kind: "begin", WALLimit: 1000})
				for j := 1 + hr.Intn(3); j > 0; j-- {
					ops = append(ops, engine.Op{Kind: "setfull", P: hr.Intn(1 << 16), Seed: 1 + hr.Intn(1000)})
				}
				ops = append(ops, engine.Op{Kind: "commit"})
			}
			ops = append(ops, engine.Op{Kind: "begin"}, engine.Op{Kind: "alloc", N: 2 + hr.Intn(5)}, engine.Op{Kind: "setfull", P: 1 << 15, Seed: 7}, engine.Op{Kind: "commit"},
				engine.Op{Kind: "begin"}, engine.Op{Kind: "setfull", P: hr.Intn(1 << 16), Seed: 9}, engine.Op{Kind: "alloc", N: 1 + hr.Intn(3)}, engine.Op{Kind: "commit"}, engine.Op{Kind: "verify"})
			rep.count("scenario:meta-area-grows-out-of-the-data-free-list", 1)
			runOracleHistory(rep, cfg, ops, hseed, "", nil, nil)
		}
		// directed family B: a bounded file whose last pages below the limit are taken by a growth of the meta area
		// (a contiguous region from the end of the file), followed by overflow-enabled transactions that need
		// more meta pages than are left: the overflow pages must not alias pages the file already uses
		for i := 0; i < nH/6; i++ {
			hseed := r.Int63()
			hr := rand.New(rand.NewSource(hseed))
			pages := 64 + hr.Intn(16)
			cfg := engine.Config{PageSize: 1024, MaxSize: uint64(pages) * 1024}
			left := 2 + hr.Intn(4)
			ops := []engine.Op{{Kind: "begin"}}
			for todo := pages - 2 - left; todo > 0; {
				k := 1 + hr.Intn(20)
				if k > todo {
					k = todo
				}
				ops = append(ops, engine.Op{Kind: "alloc", N: k})
				todo -= k
			}
			for j := 0; j < 10; j++ {
				ops = append(ops, engine.Op{Kind: "setfull", P: j * 5, Seed: 1 + hr.Intn(1000)})
			}
			ops = append(ops, engine.Op{Kind: "commit"})
			for t := 2 + hr.Intn(4); t > 0; t-- {
				ops = append(ops, engine.Op{Kind: "begin", Overflow: t%2 == 1 || hr.Intn(2) == 0, WALLimit: 1000})
				for j := 1 + hr.Intn(3); j > 0; j-- {
					ops = append(ops, engine.Op{Kind: "setfull", P: hr.Intn(1 << 16), Seed: 1 + hr.Intn(1000)})
				}
				ops = append(ops, engine.Op{Kind: "commit"}, engine.Op{Kind: "verify"})
			}
			ops = append(ops, engine.Op{Kind: "reopen"}, engine.Op{Kind: "verify"})
			rep.count("scenario:meta-area-takes-the-last-pages-then-overflow", 1)
			runOracleHistory(rep, cfg, ops, hseed, "", nil, nil)
		}
		// directed family C: a full bounded file whose overwrite / mapping / free-list pages live past the size limit
		// (overflow area); the limit is raised or removed on open (FlagUpdMaxSize with a bigger size, with 0, with the
		// unbound flag); then pages are allocated from the end of the file: none of them may be a page the file uses
		// internally (seeded change C04n: the data end marker is not moved behind the overflow area when the limit is
		// removed by a maximum size of 0)
		for i := 0; i < 12; i++ {
			hseed := r.Int63()
			hr := rand.New(rand.NewSource(hseed))
			cfg := engine.Config{PageSize: 1024, MaxSize: uint64(64+hr.Intn(32)) * 1024, InitMetaArea: uint32(hr.Intn(2) * 2)}
			ops := fillAllOps(hr)
			ops = append(ops, engine.Op{Kind: "begin", Overflow: true, WALLimit: 1000})
			for k := 2 + hr.Intn(8); k > 0; k-- {
				ops = append(ops, engine.Op{Kind: "setfull", P: hr.Intn(1 << 16), Seed: 1 + hr.Intn(1000)})
			}
			if i%2 == 0 {
				ops = append(ops, engine.Op{Kind: "free", P: hr.Intn(1 << 16)})
			}
			ops = append(ops, engine.Op{Kind: "commit"})
			re := engine.Op{Kind: "reopen", Flags: uint64(txfile.FlagUpdMaxSize), MaxSize: []uint64{0, 0, 256 * 1024}[i%3]}
			if i%3 == 1 {
				re.Flags |= uint64(txfile.FlagUnboundMaxSize)
			}
			ops = append(ops, re, engine.Op{Kind: "verify"},
				engine.Op{Kind: "begin"}, engine.Op{Kind: "alloc", N: 4 + hr.Intn(6)}, engine.Op{Kind: "setfull", P: 1 << 15, Seed: 5}, engine.Op{Kind: "commit"}, engine.Op{Kind: "verify"},
				engine.Op{Kind: "begin"}, engine.Op{Kind: "alloc", N: 3}, engine.Op{Kind: "setfull", P: 1<<15 + 1, Seed: 6}, engine.Op{Kind: "commit"}, engine.Op{Kind: "verify"},
				engine.Op{Kind: "reopen"}, engine.Op{Kind: "verify"})
			rep.count("scenario:limit-raised-or-removed-on-a-file-with-an-overflow-area", 1)
			runOracleHistory(rep, cfg, ops, hseed, "", nil, nil)
		}
		// part F: commits that FAIL (injected write / sync / truncate / mmap failures), then further transactions: the
		// allocator of the process must still be the one of the last committed state - no page of the committed state may
		// be handed out, the free lists must still partition the file (seeded change C04k: the allocator adopts the new
		// free lists before the commit is known to be durable). Only allocator / ownership failures are reported here;
		// everything else a fault history can show belongs to C08.
		for i := 0; i < nH/4; i++ {
			if rep.outOfTime() {
				break
			}
			hseed := r.Int63()
			hr := rand.New(rand.NewSource(hseed))
			cfg := gen.PickConfig(hr)
			ops, kinds := faultHistory(hr)
			// (only what the PROCESS does before the file is opened again: what a reopen finds after a commit whose final
			// sync failed is the known finding F2 of C08)
			firstReopen := func(o []engine.Op) int {
				for k, op := range o {
					if op.Kind == "reopen" || op.Kind == "reopen-under-faults" {
						return k
					}
				}
				return 1 << 30
			}
			var curOps []engine.Op
			owner := func(fs []string) string {
				for _, m := range fs {
					var at int
					if _, err := fmt.Sscanf(m, "op#%d:", &at); err == nil && at >= firstReopen(curOps) {
						continue
					}
					sg := failSig(m)
					if strings.HasPrefix(sg, "allocator-partition") || strings.HasPrefix(sg, "free-list-accounting") ||
						strings.HasPrefix(sg, "meta-area-accounting") || strings.HasPrefix(sg, "allocated-page") || strings.Contains(m, "allocated page") {
						return m
					}
				}
				return ""
			}
			curOps = ops
			e, hang := c08Run(cfg, ops, false)
			rep.Evaluations++
			rep.count("scenario:failing-commits-then-allocations", 1)
			if hang != "" || e == nil {
				continue
			}
			rep.count("failing-commits", e.Stats["err:commit"])
			first := owner(e.Failures)
			if first == "" {
				continue
			}
			sig := "fault/" + failSig(first)
			min := ops
			if !rep.distinct["viol/"+sig] {
				nofaults := func(o []engine.Op) (n int) {
					for _, op := range o {
						if op.Kind == "nofault" {
							n++
						}
					}
					return n
				}
				min = engine.Shrink(ops, func(c []engine.Op) bool {
					if nofaults(c) != nofaults(ops) {
						return false
					}
					curOps = c
					e2, h2 := c08Run(cfg, c, false)
					return h2 == "" && e2 != nil && owner(e2.Failures) != "" && "fault/"+failSig(owner(e2.Failures)) == sig
				})
			}
			rep.violate(Violation{Kind: "oracle", Sig: sig,
				Detail: fmt.Sprintf("%s on %s (%s); minimal history: %s", first, cfg, kinds, opKinds(min)),
				Replay: histReplay{Config: cfg, Ops: min, Failures: []string{first}, Seed: hseed, Mode: "c08"}})
		}
		rep.ModelCalls = m.N
		return rep.finish(f)
	})
}
