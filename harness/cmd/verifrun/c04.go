package main

import (
	"fmt"
	"math/rand"
	"os"

	"verifharness/gen"
	"verifharness/model"
)

func init() {
	register("k1alloc", func(args []string) int {
		f := parseFlags("k1alloc", args)
		rep := newReport("K1", f)
		m, err := model.Start()
		if err != nil {
			fmt.Fprintln(os.Stderr, err)
			return 2
		}
		defer m.Close()
		r := rand.New(rand.NewSource(f.seed))
		n := 300
		if f.n > 0 {
			n = f.n
		}
		allocK1(rep, m, r, n, n*3, n*3)
		rep.ModelCalls = m.N
		return rep.finish(f)
	})
	register("c04", func(args []string) int {
		f := parseFlags("c04", args)
		rep := newReport("C04", f)
		rep.Rule = "K1: random allocator scripts (begin / data alloc (also 20-220 pages) / contiguous alloc / free of fresh and of committed pages / overwrite-page alloc + free / meta alloc / commit / rollback; bounded, tiny and unbounded page limits, pre-existing fragmented free lists, regions of 250+ pages, committed overflow area) on the bare allocator vs. the extracted Coq model, full state compared after every operation; single free-list operations (both orders, unmerged lists) and the region codec. " +
			"Oracle: random file histories with the ownership map (every id returned by Alloc must be >= 2, not live in the committed state, not freed-but-committed, not a free-list / mapping / overwrite page, not handed out twice) and content re-verification. Non-trivial: scripts with >= 1 op executed, histories with a commit; distinct by content."
		m, err := model.Start()
		if err != nil {
			fmt.Fprintln(os.Stderr, err)
			return 2
		}
		defer m.Close()
		if f.replay != "" {
			rp, err := loadHistReplay(f.replay)
			if err != nil {
				fmt.Fprintln(os.Stderr, err)
				return 2
			}
			if len(rp.Ops) > 0 {
				runOracleHistory(rep, rp.Config, rp.Ops, rp.Seed, rp.Mode, nil, nil)
			}
			return rep.finish(f)
		}
		r := rand.New(rand.NewSource(f.seed))
		nS, nH := 400, 200
		if f.tier == "thorough" {
			nS, nH = 12000, 4000
		}
		allocK1(rep, m, r, nS, nS*2, nS)
		for i := 0; i < nH; i++ {
			hseed := r.Int63()
			hr := rand.New(rand.NewSource(hseed))
			cfg := gen.PickConfig(hr)
			prof := gen.DefaultProfile()
			prof.AbortPct = 35
			ops := gen.History(hr, prof)
			e := runOracleHistory(rep, cfg, ops, hseed, "", nil, nil)
			if e != nil && e.Stats["commit"] > e.Stats["err:commit"] {
				rep.nontrivial(fmt.Sprintf("%s/%v", cfg, e.Stats))
			}
		}
		rep.ModelCalls = m.N
		return rep.finish(f)
	})
}
