// verifrun is the Go side of the verification harness: it drives the
// implementation in /repo (built with -tags verif), talks to the extracted
// Coq model (bin/modelrun) and reports results as JSON.
package main

import (
	"fmt"
	"os"
)

type command func(args []string) int

var commands = map[string]command{}

func register(name string, c command) { commands[name] = c }

func main() {
	if len(os.Args) < 2 {
		fmt.Fprintln(os.Stderr, "usage: verifrun <command> [args]")
		os.Exit(2)
	}
	c, ok := commands[os.Args[1]]
	if !ok {
		fmt.Fprintln(os.Stderr, "unknown command", os.Args[1])
		os.Exit(2)
	}
	os.Exit(c(os.Args[2:]))
}
