package main

import (
	"fmt"
	"os"
	"strings"

	txfile "github.com/elastic/go-txfile"

	"verifharness/engine"
	"verifharness/pqengine"
	"verifharness/simdisk"
)

// debug: replays a history replay file verbosely (disk log, headers after every op).
func init() {
	register("debug", func(args []string) int {
		rp, err := loadHistReplay(args[0])
		if err != nil {
			fmt.Fprintln(os.Stderr, err)
			return 2
		}
		e, err := engine.New(rp.Config)
		if err != nil {
			fmt.Println("create failed", err)
			return 1
		}
		last := 0
		for _, op := range rp.Ops {
			var res engine.Result
			switch op.Kind {
			case "nofault":
				e.Disk.Fault = nil
			case "commit-must-succeed":
				res = e.Apply(engine.Op{Kind: "commit"})
			default:
				res = e.Apply(op)
			}
			fmt.Printf("== %v -> err=%q ids=%v skipped=%v\n", op, res.Err, res.IDs, res.Skipped)
			log := e.Disk.LogCopy()
			for i := last; i < len(log); i++ {
				o := log[i]
				switch o.Kind {
				case simdisk.OpWrite:
					fmt.Printf("   #%d write page %d len %d failed=%v\n", i, o.Off/int64(rp.Config.PageSize), len(o.Data), o.Failed)
				case simdisk.OpMarker:
					fmt.Printf("   #%d marker %s\n", i, o.Tag)
				default:
					fmt.Printf("   #%d %v size=%d failed=%v\n", i, o.Kind, o.Size, o.Failed)
				}
			}
			last = len(log)
			if e.File != nil {
				s := txfile.VerifSnapshot(e.File)
				fmt.Printf("   active=%d hdr0(txid=%d valid=%v dend=%d) hdr1(txid=%d valid=%v dend=%d) dataEnd=%d metaEnd=%d size=%d mapped=%d\n", s.MetaActive,
					s.Hdr[0].Txid, s.Hdr[0].Valid, s.Hdr[0].DataEndMarker, s.Hdr[1].Txid, s.Hdr[1].Valid, s.Hdr[1].DataEndMarker, s.DataEnd, s.MetaEnd, s.Size, s.MappedLen)
				fmt.Printf("   maxPages=%d metaTotal=%d metaFree=%v dataFree=%v flPages=%v walPages=%v wal=%v\n", s.MaxPages, s.MetaTotal, s.MetaFree, s.DataFree, s.FreelistPages, s.WalMetaPages, s.WalMapping)
			}
		}
		for _, f := range e.Failures {
			fmt.Println("FAIL:", f)
		}
		return 0
	})
}

func init() {
	// pqlog <replay.json>: runs a queue history and prints the result of every operation and the file's end markers
	register("pqlog", func(args []string) int {
		rp, err := loadPQReplay(args[0])
		if err != nil {
			fmt.Fprintln(os.Stderr, err)
			return 2
		}
		e, err := pqengine.New(rp.Config)
		if err != nil {
			fmt.Fprintln(os.Stderr, err)
			return 2
		}
		for _, op := range rp.Ops {
			if e.Queue == nil {
				break
			}
			res := e.Apply(op)
			line := fmt.Sprintf("%-14v => %-22q", op, res)
			if e.File != nil {
				s := txfile.VerifSnapshot(e.File)
				sz, _ := e.Disk.Size()
				line += fmt.Sprintf(" dataEnd=%d metaEnd=%d max=%d metaTotal=%d filePages=%d", s.DataEnd, s.MetaEnd, s.MaxPages, s.MetaTotal, sz/int64(rp.Config.PageSize))
			}
			fmt.Println(line)
		}
		for _, l := range e.Log {
			if strings.HasPrefix(l, "appfill:") {
				fmt.Println(l)
			}
		}
		for _, f := range e.Failures {
			fmt.Println("FAILURE:", f)
		}
		return 0
	})
}
