#!/bin/sh
# Builds the whole framework from files on disk (offline): Go harness, generated constants,
# Coq development (full .vo build), extracted OCaml model.
set -e
cd "$(dirname "$0")"
export GOFLAGS=-mod=mod GOPROXY=off GOSUMDB=off GOTOOLCHAIN=local
mkdir -p bin evidence replays coq/Gen
cp /repo/go.sum harness/go.sum
(cd harness && go build -tags verif -o ../bin/verifrun ./cmd/verifrun)
./bin/verifrun consts > coq/Gen/Consts.v
(cd coq && coq_makefile -f _CoqProject -o Makefile && timeout 3000 make -j16)
sh ocaml/build.sh
echo setup ok
